import json,glob,re,sys
log=open(sys.argv[1]).read()
rows=[]
for d in sorted(glob.glob('/verif/seeded/*/')):
    id=d.rstrip('/').split('/')[-1]
    if not re.match(r'C\d\d-',id): continue
    m=json.load(open(d+'meta.json'))
    r=re.findall(r'^SEEDED %s property=(\S+) tier=(\S+) caught=(\S+) exit=(\d+)(.*)$'%re.escape(id),log,re.M)
    if not r: continue
    prop,tier,caught,ex,keys=r[-1]
    keys=[k[4:] for k in keys.split() if k.startswith('key=')]
    m['verif']={"confirmed":"./seedtest.sh seeded/%s quick --confirm: compiles, unedited suite passes with the change, demonstration fails with it and passes without it"%id,
                "ran":"./seedtest.sh seeded/%s %s (scratch worktree of /repo HEAD + patch, ./check %s %s in side mode)"%(id,tier,prop,tier),
                "caught":caught=="yes","exit":int(ex),"violation_keys":keys}
    json.dump(m,open(d+'meta.json','w'),indent=1)
    rows.append((id,prop,m['summary'].split('. ')[0][:150],caught,', '.join(keys)[:140]))
print("| id | what the change does (first sentence of its meta.json) | caught by `./check %s quick` | first violation keys |".replace('%s','<P>'))
print("|---|---|---|---|")
for id,prop,summ,c,k in rows:
    print("| %s | %s | %s | %s |"%(id,summ.replace('|','/'),c,k.replace('|','/')))
