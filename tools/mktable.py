#!/usr/bin/env python3
"""Builds the table of DESIGN.md §8.6 and the `verif` block of every seeded/<id>/meta.json from logs of seedtest.sh runs.

usage: tools/mktable.py <log> [<log> ...]      (lines "SEEDED <id> property=<P> tier=<t> caught=yes|no exit=<n> key=...")
A line whose property is the seed's own property is the result of its own check (the last such line counts); lines
with another property (SEED_PROP=<P> ./seedtest.sh ...) are recorded as results of neighbouring checks.
"""
import json, glob, re, sys, os

root = os.path.dirname(os.path.dirname(os.path.abspath(__file__)))
log = "\n".join(open(f).read() for f in sys.argv[1:])
rows, own_yes, total, only_other, nowhere = [], 0, 0, [], []
def num(d):
    m = re.match(r'.*/(C\d\d)-(\d+)/$', d)
    return (m.group(1), int(m.group(2)))
for d in sorted(glob.glob(root + '/seeded/C*-*/'), key=num):
    sid = d.rstrip('/').split('/')[-1]
    m = json.load(open(d + 'meta.json'))
    prop = m['property']
    own, others = None, {}
    for p, tier, caught, ex, keys in re.findall(r'^SEEDED %s property=(\S+) tier=(\S+) caught=(\S+) exit=(\d+)(.*)$' % re.escape(sid), log, re.M):
        ks = [k[4:] for k in keys.split() if k.startswith('key=')]
        rec = {"check": "./check %s %s" % (p, tier), "caught": caught == "yes", "exit": int(ex), "violation_keys": ks}
        if p == prop:
            own = rec
        else:
            others[p] = rec
    if own is None:
        continue
    total += 1
    v = {"confirmed": "./seedtest.sh seeded/%s quick --confirm: compiles, unedited suite passes with the change, demonstration fails with it and passes without it" % sid,
         "ran": "./seedtest.sh seeded/%s (scratch worktree of /repo HEAD + patch, %s in side mode)" % (sid, own["check"]),
         "caught": own["caught"], "exit": own["exit"], "violation_keys": own["violation_keys"]}
    if others:
        v["neighbouring_checks"] = others
    m['verif'] = v
    json.dump(m, open(d + 'meta.json', 'w'), indent=1, ensure_ascii=False)
    res = "yes" if own["caught"] else ("inconclusive (exit 2)" if own["exit"] == 2 else "no")
    keys = ', '.join(own["violation_keys"])[:120]
    by = [p for p, r in others.items() if r["caught"]]
    if own["caught"]:
        own_yes += 1
    elif by:
        only_other.append((sid, by))
        res += "; " + ", ".join("`./check %s quick`: yes" % p for p in by)
        keys = ', '.join(others[by[0]]["violation_keys"])[:120]
    else:
        nowhere.append(sid)
    rows.append((sid, m['summary'].split('. ')[0][:150].replace('|', '/'), res, keys.replace('|', '/')))
print("| id | what the change does (first sentence of its meta.json) | caught by `./check <P> quick` | first violation keys |")
print("|---|---|---|---|")
for r in rows:
    print("| %s | %s | %s | %s |" % r)
print()
print("%d of %d are caught by the quick tier of their own property's check; %d more only by a neighbouring property's check (%s); not caught: %s." % (
    own_yes, total, len(only_other), '; '.join("%s by %s" % (s, '/'.join(b)) for s, b in only_other), ', '.join(nowhere) or 'none'))
