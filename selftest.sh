#!/bin/bash
# Determinism self-test (DESIGN.md §2.7): the event-log hash of every run index must be
# identical across fresh processes, GOMAXPROCS 1/4/16, repeated executions, and (for the
# scheduler engines) between the plain and the -race build. Not a property check.
set -u
cd "$(dirname "$0")"
PROPS=("$@")
# PROP@N starts at run index N (C09: enumerated placements from 0, random VM runs from 40320, Eval runs from 80320;
# C18: sampled multi-fault runs from 12)
[ ${#PROPS[@]} -eq 0 ] && PROPS=(C03 C04 C06 C07 C08 C09 C09@50400 C09@90400 C10 C12 C14 C18 C18@12)
RUNS=${SELFTEST_RUNS:-48}
SEED=${VERIF_SEED:-1}
tmp=$(mktemp -d)
fail=0
for spec in "${PROPS[@]}"; do
	p=${spec%%@*}
	start=0
	[ "$spec" != "$p" ] && start=${spec##*@}
	tag=${spec//@/_}
	n=0
	for rep in 1 2; do
		for gmp in 1 4 16; do
			GOMAXPROCS=$gmp bin/simcheck hashes "$p" --tier quick --seed "$SEED" --runs "$RUNS" --start "$start" > "$tmp/$tag.$rep.$gmp" 2>/dev/null &
		done
	done
	wait
	ref="$tmp/$tag.1.1"
	for f in "$tmp/$tag".*; do
		n=$((n+1))
		if ! cmp -s "$ref" "$f"; then
			echo "NONDETERMINISTIC $p: $(basename "$f") differs from $(basename "$ref")"
			diff "$ref" "$f" | head -5
			fail=1
		fi
	done
	case " C08 C09 " in *" $p "*)
		d=$(mktemp -d)
		GORACE="halt_on_error=0 exitcode=0 log_path=$d/race" bin/simcheck.race hashes "$p" --tier quick --seed "$SEED" --runs "$RUNS" --start "$start" --arm "" > "$tmp/$tag.race" 2>/dev/null
		rm -rf "$d"
		n=$((n+1))
		if ! cmp -s "$ref" "$tmp/$tag.race"; then
			echo "NONDETERMINISTIC $p: the -race build gives different event-log hashes"
			diff "$ref" "$tmp/$tag.race" | head -5
			fail=1
		fi ;;
	esac
	echo "selftest $spec: $n executions of $RUNS run indexes compared ($(wc -l < "$ref") hashes)"
done
rm -rf "$tmp"
[ $fail -eq 0 ] && echo "selftest ok" || { echo "selftest FAILED"; exit 1; }
