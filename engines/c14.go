package engines

import (
	"fmt"
	"strings"

	"github.com/ozanh/ugo"
	"verif/sim"
)

// C14 — calling a script function from Go equals calling it inside the script.
//
// Simulator-owned: the history of the child-VM pool (which VM an Acquire gets:
// new, most recently released, or an older one), pooled vs non-pooled
// invokers, repeated invocation on one handle, nesting of invocations, and
// how the previous user of a recycled VM ended (a warm-up phase runs functions
// that return, throw, and fail in host calls on pooled VMs first).
// Oracle: self-differential — the same script with every marked call site
// rendered as f(args) or as call(f, args) / callrep(f, n, args).

const c14Warmup = `
wf1 := func(a, ...b) { x := [a, b]; return x }
wf2 := func() { throw "warm" }
wf3 := func(n) { try { return op(3) } finally { n = n + 1 } }
wm := import("modA")
wf4 := func() { return wm.inc() }
for wi := 0; wi < 3; wi++ {
	try { call(wf1, wi, 2, 3) } catch e { log(e.Message) }
	try { call(wf2) } catch e { log(e.Message) }
	try { call(wf3, wi) } catch e { log(e.Message) }
	try { call(wf4) } catch e { log(e.Message) }
}
`

// c14EarlierDeep: in-script calls several frames deep, every frame inside a try statement, a loop at the bottom
const c14EarlierDeep = `
var we2
we := func(n) {
	try {
		if n > 0 { return we2(n - 1) + 1 }
		wx := 0
		for wj := 0; wj < 60; wj++ { wx++ }
		return wx
	} catch e {
		return -1
	} finally {
		n = 0
	}
}
we2 = we
log(we(6), we(3))
`

// Script-level reference implementations of the stdlib functions that call a script function back from Go
// (on a pooled child VM): same results, same number and order of callback invocations, errors propagate.
const c14Refs = `
refIndexFunc := func(s, f) { for i, c in s { if f(c) { return i } }; return -1 }
refLastIndexFunc := func(s, f) { for i := len(s) - 1; i >= 0; i-- { if f(char(s[i])) { return i } }; return -1 }
refTrimLeftFunc := func(s, f) { i := 0; for i = 0; i < len(s); i++ { if !f(char(s[i])) { break } }; return s[i:] }
refTrimRightFunc := func(s, f) { i := 0; for i = len(s); i > 0; i-- { if !f(char(s[i-1])) { break } }; return s[:i] }
refTrimFunc := func(s, f) { return refTrimRightFunc(refTrimLeftFunc(s, f), f) }
refFieldsFunc := func(s, f) {
	out := []
	cur := ""
	started := false
	for i, c in s {
		if f(c) {
			if started { out = append(out, cur); cur = ""; started = false }
		} else {
			cur += string(c)
			started = true
		}
	}
	if started { out = append(out, cur) }
	return out
}
refMap := func(f, s) { out := ""; for i, c in s { out += string(f(c)) }; return out }
`

// c14StdlibSection returns the same statements twice: with the reference implementations and with the strings module.
func c14StdlibSection(t *sim.Tape) (ref, lib string) {
	var a, b strings.Builder
	a.WriteString(c14Refs)
	b.WriteString("sfm := import(\"strings\")\n")
	n := 1 + t.Draw(4)
	strs := []string{`"ab cd"`, `"  xy "`, `"xax"`, `""`, `"a"`, `"bbbb"`, `" a b "`}
	preds := []string{"c == 'x'", "c == ' '", "c < 'c'", "c != 'a'", "true", "false"}
	for k := 0; k < n; k++ {
		fn := []string{"IndexFunc", "LastIndexFunc", "TrimLeftFunc", "TrimRightFunc", "TrimFunc", "FieldsFunc", "Map"}[t.Draw(7)]
		str := strs[t.Draw(len(strs))]
		cb := fmt.Sprintf("sfcb%d", k)
		var def string
		opCall := ""
		if t.Bool(2, 3) {
			opCall = fmt.Sprintf("op(%d); ", t.Draw(4))
		}
		if fn == "Map" {
			def = fmt.Sprintf("%s := func(c) { log(\"cb\", c); %sreturn char(c + %d) }\n", cb, opCall, t.Draw(3))
		} else {
			def = fmt.Sprintf("%s := func(c) { log(\"cb\", c); %sreturn %s }\n", cb, opCall, preds[t.Draw(len(preds))])
		}
		args := str + ", " + cb
		if fn == "Map" {
			args = cb + ", " + str
		}
		for _, x := range []struct {
			sb   *strings.Builder
			call string
		}{{&a, "ref" + fn + "(" + args + ")"}, {&b, "sfm." + fn + "(" + args + ")"}} {
			x.sb.WriteString(def)
			fmt.Fprintf(x.sb, "try { log(\"sf\", %d, %s) } catch e { log(\"sferr\", %d, e.Message) }\n", k, x.call, k)
		}
	}
	return a.String(), b.String()
}

func c14Run(rc *sim.RunCtx) {
	t := rc.T
	// in a fifth of the runs the host passes no globals object (host functions arrive as parameters); the script's own
	// global is then written for the first time inside a function that is a marked call site
	nilGlobals := t.Bool(1, 5)
	g := newGen(t, genConfig{Modules: true, Hosts: true, Consts: t.Bool(1, 3), CallMark: true, NoTrace: true, NilGlobals: nilGlobals, MaxStmts: 12})
	src, mods := g.program()
	warm := t.Bool(2, 3)
	if nilGlobals {
		rc.Probe("run-without-globals-object")
		const genHeader = "param (PA, PB, log, op, choose, call, trace, WID)\nglobal GV\nGV = PA*7 + 1\n"
		if !strings.HasPrefix(src, genHeader) {
			panic("harness: unexpected header of a NilGlobals script")
		}
		hdr := "param (PA, PB, log, op, choose, call, trace, WID, callrep, calleach)\nglobal GV\n"
		if warm {
			hdr += c14Warmup
		}
		src = hdr + "zinit := func() { GV = 5; return GV }\nlog(\x01zinit\x02\x03)\n" + src[len(genHeader):]
	} else {
		src = strings.Replace(src, sim.Prelude, sim.PreludeCall, 1)
		if warm {
			src = strings.Replace(src, sim.PreludeCall, sim.PreludeCall+c14Warmup, 1)
		}
	}
	if !strings.ContainsAny(src, "\x01\x04\x05") {
		rc.Discard = "no-marked-call-site"
		return
	}
	srcA := renderCalls(src, false)
	srcB := renderCalls(src, true)
	stdlibSection := t.Bool(1, 2)
	if stdlibSection {
		ra, rb := c14StdlibSection(t)
		ia, ib := strings.LastIndex(srcA, "return ["), strings.LastIndex(srcB, "return [")
		srcA = srcA[:ia] + ra + srcA[ia:]
		srcB = srcB[:ib] + rb + srcB[ib:]
		rc.Probe("stdlib-callback-section")
	}
	mm := newModuleMap(append(append([]srcModule{}, fixedModules...), mods...))
	noOpt := t.Bool(1, 3)
	bcA, errA := compile(srcA, mm, noOpt, 0)
	bcB, errB := compile(srcB, mm, noOpt, 0)
	if errA != nil || errB != nil {
		rc.Discard = "compile-error"
		rc.Logf("compile: %v / %v", errA, errB)
		return
	}
	ws := sim.DrawWorldSpec(t, "w0", 4, 3, 2, []sim.FaultKind{sim.FGoErr, sim.FUgoErr}, 3, 64)
	sc := &sim.StepCounter{Cap: 200000}
	restoreHook := sc.Install()
	defer restoreHook()
	pollute := t.Bool(1, 3)
	earlier := t.Bool(1, 3)
	var earlierBC *ugo.Bytecode
	earlierAbortAt := int64(0)
	if earlier && t.Bool(1, 2) {
		earlierAbortAt = int64(5 + t.Draw(700))
	}
	if earlier {
		earlierBC = mustCompile(sim.PreludeCall+c14EarlierDeep+c14Warmup+"return wm.get()\n", mm, false)
		rc.Probe("root-vm-ran-another-script-before")
	}
	run := func(bc *ugo.Bytecode, policy int) (c08Result, *sim.World, *sim.SimPool) {
		pool := &sim.SimPool{T: t, Always: policy}
		restore := pool.Install()
		defer restore()
		if policy == 0 && pollute {
			// history of the pool: another VM was aborted while it held pooled child VMs (nested), which then went back to the pool
			// (the outer function first uses and gives back a grandchild, then sits in another one when the abort comes)
			abc := mustCompile(sim.PreludeCall+"h := func() { return 1 }\ng := func() { x := 0; for { x++ } }\nf := func() { call(h); call(h); return call(g) }\nreturn call(f)\n", mm, false)
			aw := sim.NewWorld(&sim.WorldSpec{Name: "aborted", Pooled: []bool{true, true, true, true}, Repeat: []int{0, 0, 0, 0}}, nil)
			asc := &sim.StepCounter{Cap: 5000, AbortAt: int64(30 + t.Draw(200))}
			ar := asc.Install()
			ugo.NewVM(abc).Run(aw.Globals)
			ar()
			rc.Fault("pool-user-aborted")
		}
		sc.Steps = 0
		w := sim.NewWorld(ws, nil)
		vm := ugo.NewVM(bc).SetRecover(true)
		if policy == 0 && earlier {
			// history of the root VM: it ran another script with pooled and plain invocations before, and was given
			// this one with SetBytecode (no Clear)
			pw := sim.NewWorld(&sim.WorldSpec{Name: "earlier", Pooled: []bool{true, false, true, true, false, true, true, false, true, true, false, true}, Repeat: make([]int, 12)}, nil)
			vm = ugo.NewVM(earlierBC).SetRecover(true)
			if earlierAbortAt > 0 {
				// ... and that run was aborted at a drawn instruction (inside its try statements and callbacks)
				asc := &sim.StepCounter{Cap: 5000, AbortAt: earlierAbortAt}
				ar := asc.Install()
				vm.Run(pw.Globals)
				ar()
			} else {
				vm.Run(pw.Globals)
			}
			vm.SetBytecode(bc)
			sc.Steps = 0
		}
		var ret ugo.Object
		var err error
		if nilGlobals {
			args := []ugo.Object{ugo.Int(1), ugo.String("pb")}
			for _, n := range []string{"log", "op", "choose", "call", "trace", "WID", "callrep", "calleach"} {
				args = append(args, w.Globals[n])
			}
			ret, err = vm.Run(nil, args...)
		} else {
			ret, err = vm.Run(w.Globals, ugo.Int(1))
		}
		// strip the history entries of the call() bookkeeping: none are logged, histories are comparable as they are
		return c08Result{out: sim.MakeOutcome(ret, err, w.Hist)}, w, pool
	}
	a1, _, _ := run(bcA, 1)
	a2, _, _ := run(bcA, 1)
	if !a1.out.Equal(a2.out) {
		rc.Discard = "workload-not-self-deterministic"
		return
	}
	if sc.Capped {
		rc.Discard = "workload-too-long"
		return
	}
	b, wb, pool := run(bcB, 0)
	rc.Steps = sc.Steps
	if sc.Capped {
		rc.Discard = "workload-too-long"
		return
	}
	for i := 0; i < pool.Recycled; i++ {
		rc.Fault("pool-recycle")
	}
	for _, f := range wb.Fired {
		rc.Fault("host-" + f.Kind.String())
	}
	nerr := 0
	for _, e := range wb.CallErrs {
		if e != "ok" {
			nerr++
		}
	}
	if nerr > 0 {
		rc.Probe("invoke-returned-error")
	}
	if pool.Recycled > 0 && nerr > 0 {
		rc.Probe("recycled-vm-after-failed-use")
	}
	if strings.Contains(src, "\x04") {
		rc.Probe("repeated-invoke-on-one-handle")
	}
	rc.Logf("src=%x a=%s calls=%d recycled=%d", hash64s(src), a1.out, len(wb.CallErrs), pool.Recycled)
	if len(wb.CallErrs) > 0 {
		rc.Sig = fmt.Sprintf("%x|%d|%d", hash64s(src), pool.Recycled, nerr)
		if rc.Index%47 == 0 {
			rc.Sample = map[string]any{"script_via_host": srcB, "invocations": len(wb.CallErrs), "recycled_child_vms": pool.Recycled, "invoke_errors": nerr, "outcome": b.out.String()}
		}
	}
	if !a1.out.Equal(b.out) {
		what := "outcome"
		if a1.out.Kind == b.out.Kind && a1.out.Value == b.out.Value {
			what = "history"
		}
		var ms []string
		for _, m := range mods {
			ms = append(ms, "// "+m.Name+"\n"+m.Src)
		}
		rc.Decoded = map[string]any{"script_in_script_calls": srcA, "script_via_host": srcB, "modules": ms, "optimizer_off": noOpt, "faults": ws.Faults, "pooled": ws.Pooled[:8]}
		rc.Fail("invoke-differs-from-call", "invoke-differs:"+what, "the script behaves differently when its marked call sites go through an Invoker\n in-script: %s\n via host:  %s\nscript (via host):\n%s", a1.out, b.out, srcB)
	}
}

func init() {
	sim.Register(&sim.Engine{
		ID:    "C14",
		Level: "exploration",
		Rule: "each run generates one script (closures over counters, fixed and variadic functions, recursive functions, throwing functions, functions that import source/builtin modules and mutate module state and globals; 2/3 of runs start with a warm-up that leaves pooled child VMs behind whose last use returned, threw or failed in a host call) " +
			"and renders every marked call site twice: f(args) vs call(f, args) (pooled or not, drawn per call) and an in-script loop vs callrep(f, n, args) (one handle, n invocations); half of the runs add a section that calls strings.IndexFunc/LastIndexFunc/Trim*Func/FieldsFunc/Map with script callbacks (which may fail in a host call) next to script-level reference implementations of the same functions. Both variants run in the same world; outcome and history must be equal. The pool policy (new / last released / older released VM) is drawn per Acquire. " +
			"Non-trivial = at least one invocation through the host happened; distinct = distinct (script, recycle count, failed-invoke count).",
		Assumptions: []string{"argument tuples always match the callee's arity (lenient Go-side arity is excluded by the property)", "resolved positions are not compared (they legitimately differ); host faults are error returns only"},
		Real:        []string{"Invoker.Acquire/Invoke/Release", "vmPool._acquire/_release", "VM.Run/initLocals", "compiler"},
		Simulated:   []string{"child-VM sync.Pool policy", "host functions (call, callrep, op, choose) and their failures"},
		Runs: func(tier string) int {
			if tier == "thorough" {
				return 3000000
			}
			return 40000
		},
		WallCap: func(tier string) float64 {
			if tier == "thorough" {
				return 1500
			}
			return 120
		},
		Run:          c14Run,
		ShrinkBudget: 1000,
	})
}
