package engines

import (
	"fmt"

	"github.com/ozanh/ugo"
	"verif/sim"
)

// DebugGen prints generated programs and outcome statistics (debug tool).
func DebugGen(seed int64, n int, show int) {
	kinds := map[string]int{}
	for i := 0; i < n; i++ {
		t := sim.NewTape(seed, "debuggen", i)
		if show < 0 {
			fmt.Println("idx", i)
		}
		g := newGen(t, genConfig{Modules: true, Hosts: true, Consts: true, Share: true, Params: true, VarParams: true})
		src, mods := g.program()
		mm := newModuleMap(append(append([]srcModule{}, fixedModules...), mods...))
		bc, err := compile(src, mm, false, 0)
		if err != nil {
			kinds["compile-error"]++
			if show > 0 {
				fmt.Printf("---- %d COMPILE ERROR %v\n%s\n", i, err, src)
				for _, m := range mods {
					fmt.Printf("-- module %s\n%s\n", m.Name, m.Src)
				}
				show--
			}
			continue
		}
		ws := sim.DrawWorldSpec(t, "w", 4, 3, 0, []sim.FaultKind{sim.FGoErr}, 3, 8)
		w := sim.NewWorld(ws, nil)
		vm := ugo.NewVM(bc).SetRecover(true)
		v, err := vm.Run(w.Globals)
		o := sim.MakeOutcome(v, err, w.Hist)
		if err != nil {
			kinds["error"]++
		} else {
			kinds["value"]++
		}
		if i < show {
			fmt.Printf("---- %d\n%s\n", i, src)
			for _, m := range mods {
				fmt.Printf("-- module %s\n%s\n", m.Name, m.Src)
			}
			fmt.Println("=>", o)
		}
	}
	fmt.Println(kinds)
}

// DebugProg prints generated program number i without running it.
func DebugProg(seed int64, i int) {
	t := sim.NewTape(seed, "debuggen", i)
	g := newGen(t, genConfig{Modules: true, Hosts: true, Consts: true})
	src, mods := g.program()
	fmt.Println(src)
	for _, m := range mods {
		fmt.Printf("-- module %s\n%s\n", m.Name, m.Src)
	}
}

// DebugC04Prog prints the script C04 generates for a run index (without running it).
func DebugC04Prog(seed int64, index int) {
	t := sim.NewTape(seed, "C04", index)
	g := newGen(t, genConfig{Modules: true, Hosts: true, Consts: true, HostState: true, Params: true, MaxStmts: 12})
	src, mods := g.program()
	fmt.Println(src)
	for _, m := range mods {
		fmt.Printf("-- module %s\n%s\n", m.Name, m.Src)
	}
}
