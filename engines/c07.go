package engines

import (
	"context"
	"fmt"
	"strings"

	"github.com/ozanh/ugo"
	"verif/sim"
)

// C07 — a run's outcome depends only on bytecode, globals and arguments.
//
// Simulator-owned: the history of a VM — a drawn sequence of 1–6 prior runs,
// each ended in a chosen way (return, uncaught error, host error, recovered
// host panic, frame overflow, value-stack overflow, abort at instruction k,
// abort inside a child-VM callback) — followed by a drawn reset.

var c07Templates = []struct{ name, src string }{
	{"frame-overflow", sim.Prelude + "var a\nvar b\nd := 0\na = func() { d++; return b() + 1 }\nb = func() { d++; return a() + 1 }\nlog(\"start\")\nreturn a()\n"},
	{"value-stack-overflow", sim.Prelude + "var f\nf = func(n, x, y, z) { return 1 + f(n + 1, x, y, z) }\nlog(\"start\")\nreturn f(0, 1, 2, 3)\n"},
	{"deep-throw-through-finally", sim.Prelude + "var f\nf = func(n) {\n\ttry {\n\t\tif n == 0 { throw \"deep\" }\n\t\treturn f(n - 1) + 1\n\t} finally {\n\t\tlog(n)\n\t}\n}\nx := [1, 2, 3, {k: f}]\nreturn f(30)\n"},
	{"loop-in-child", sim.Prelude + "g := func() { x := 0; for { x++ } }\nf := func() { y := [1, 2, 3]; return call(g) }\nlog(\"start\")\nreturn call(f)\n"},
	{"loop-with-closures", sim.Prelude + "fs := []\nfor i := 0; i < 2000000; i++ {\n\tfs = [func() { return i }]\n\ttry { if i % 7 == 0 { throw i } } catch e { fs = [e] } finally { fs = append(fs, i) }\n}\nreturn fs\n"},
	{"panic-in-finally-in-child", sim.Prelude + "f := func() {\n\ttry {\n\t\treturn 1\n\t} finally {\n\t\top(0)\n\t}\n}\nlog(\"start\")\nreturn call(f)\n"},
	{"loop-under-try-frames", sim.Prelude + "var f\nf = func(n) {\n\ttry {\n\t\tif n > 0 { return f(n - 1) + 1 }\n\t\tx := 0\n\t\tfor { x++ }\n\t} catch e {\n\t\tlog(\"caught\", n)\n\t\treturn -1\n\t} finally {\n\t\tlog(\"fin\", n)\n\t}\n}\ntry {\n\treturn f(6)\n} catch e2 {\n\treturn -2\n}\n"},
	{"host-panic-under-try-frames", sim.Prelude + "var f\nf = func(n) {\n\ttry {\n\t\tif n > 0 { return f(n - 1) + 1 }\n\t\treturn op(0)\n\t} finally {\n\t\tn = 0\n\t}\n}\ntry {\n\treturn [1, 2, 3, f(5)]\n} finally {\n\tlog(\"main-finally\")\n}\n"},
	{"value-stack-overflow-in-try", sim.Prelude + "var f\nf = func(n, x, y, z) { return 1 + f(n + 1, x, y, z) }\ntry {\n\tlog(\"start\")\n\treturn f(0, 1, 2, 3)\n} catch e {\n\treturn \"caught\"\n}\n"},
	{"nil-globals-writer", "global (gx, gy)\ngx = 11\ngy = [1, 2]\nthrow \"after writing globals\"\n"},
	{"modules-then-error", sim.Prelude + "a := import(\"modA\")\nb := import(\"modB\")\nh := import(\"host\")\nh.arr[0] = 77\na.inc()\nb.twice()\nlog(a.get(), h.arr)\nreturn b.boom(\"late\")\n"},
}

type c07Prior struct {
	kind    string
	src     string
	mods    []srcModule
	abortAt int64
	spec    *sim.WorldSpec
}

// c07Eval is the Eval arm: an Eval session keeps one VM for all its fragments. After fragments that ended in every
// way a run can end, a further fragment must evaluate exactly as in a session that never saw them.
var c07EvalPriors = []struct{ name, src string }{
	{"ok", "pa := 1\n"},
	{"throw", "throw \"boom\"\n"},
	{"runtime-error", "[][3]\n"},
	{"host-fault", "op(0)\n"},
	{"throw-in-child", "call(func() { throw \"c\" })\n"},
	{"host-fault-in-child", "call(func() { return op(0) })\n"},
	{"zero-division", "pz := 0\n1 / pz\n"},
	{"caught", "try { throw \"t\" } catch e { log(e) } finally { log(\"f\") }\n"},
	{"aborted-loop", "for { }\n"},
	{"aborted-loop-in-child", "call(func() { for { } })\n"},
	{"does-not-compile", "zzq + 1\n"},
}

var c07EvalObserved = []string{
	"ov := 7\n[ov, call(func(x) { return x + ov }, 1), callrep(func() { return 3 }, 2)]\n",
	"var of2\nof := func(n) { if n == 0 { throw \"deep\" }; return of2(n - 1) }\nof2 = of\ntry { of(3) } catch e { log(e.Message) }\n[1, 2]\n",
	"throw \"observed\"\n",
	"om := import(\"modA\")\n[om.inc(), om.inc(), call(om.get)]\n",
}

func c07Eval(rc *sim.RunCtx) {
	t := rc.T
	allFaults := []sim.FaultKind{sim.FGoErr, sim.FUgoErr, sim.FPanicStr, sim.FPanicErr, sim.FPanicRT, sim.FPanicObj}
	spec := &sim.WorldSpec{Name: "ev"}
	for occ := 0; occ < 8; occ++ {
		spec.Faults = append(spec.Faults, sim.FaultAt{ID: 0, Occ: occ, Kind: allFaults[t.Draw(len(allFaults))]})
	}
	for i := 0; i < 24; i++ {
		spec.Pooled = append(spec.Pooled, t.Bool(1, 2))
		spec.Repeat = append(spec.Repeat, 0)
	}
	mm := newModuleMap(fixedModules)
	pool := &sim.SimPool{T: t}
	restorePool := pool.Install()
	defer restorePool()
	prelude := sim.PreludeCall + "0\n"
	eval := func(ev *ugo.Eval, src string, abortAt int64) (string, bool) {
		sc := &sim.StepCounter{Cap: 100000, AbortAt: abortAt}
		restore := sc.Install()
		defer restore()
		var ret ugo.Object
		var err error
		var esc any
		func() {
			defer func() { esc = recover() }()
			ret, _, err = ev.Run(context.Background(), []byte(src))
		}()
		if esc != nil {
			return "escaped-panic: " + msgClass(esc), sc.Capped
		}
		if err != nil {
			if strings.Contains(err.Error(), "Compile Error") {
				return "error=compile-error", sc.Capped
			}
			return "error=" + sim.CanonErr(err), sc.Capped
		}
		return "value=" + sim.Canon(ret), sc.Capped
	}
	// the used session
	w := sim.NewWorld(spec, nil)
	used := ugo.NewEval(ugo.CompilerOptions{ModuleMap: mm}, w.Globals)
	if r, _ := eval(used, prelude, 0); r != "value=i:0" {
		rc.Discard = "prelude-failed"
		return
	}
	var kinds []string
	for i, n := 0, 1+t.Draw(5); i < n; i++ {
		p := c07EvalPriors[t.Draw(len(c07EvalPriors))]
		at := int64(0)
		if strings.HasPrefix(p.name, "aborted") {
			at = int64(3 + t.Draw(60))
		}
		r, _ := eval(used, p.src, at)
		kinds = append(kinds, p.name)
		rc.Probe("eval-prior-" + p.name)
		if strings.HasPrefix(r, "escaped") {
			rc.Decoded = map[string]any{"fragment": p.src, "result": r}
			rc.Fail("panic-escaped", "eval:escaped:"+p.name, "Eval.Run let a Go panic through while evaluating %q: %s", p.src, r)
			return
		}
	}
	hist := len(w.Hist)
	obs := c07EvalObserved[t.Draw(len(c07EvalObserved))]
	got, capped := eval(used, obs, 0)
	gotHist := append([]string(nil), w.Hist[hist:]...)
	// the reference session: prelude and observed fragment only; same world, host faults consumed up to the same point
	w2 := sim.NewWorld(spec, nil)
	fresh := ugo.NewEval(ugo.CompilerOptions{ModuleMap: mm}, w2.Globals)
	eval(fresh, prelude, 0)
	want, capped2 := eval(fresh, obs, 0)
	if capped || capped2 {
		rc.Discard = "workload-too-long"
		return
	}
	rc.Sig = fmt.Sprintf("eval %v %x", kinds, hash64s(obs))
	rc.Logf("eval arm priors=%v got=%s", kinds, got)
	if got != want || strings.Join(gotHist, "|") != strings.Join(w2.Hist, "|") {
		rc.Decoded = map[string]any{"earlier_fragments": kinds, "observed_fragment": obs, "used_session": got, "new_session": want}
		rc.Fail("used-vm-differs", "used-session-differs:after-"+kinds[len(kinds)-1], "an Eval session that evaluated fragments ending in %v evaluates a further fragment differently from a new session\n used: %s hist=%v\n new:  %s hist=%v\nfragment:\n%s", kinds, got, gotHist, want, w2.Hist, obs)
	}
}

func c07Run(rc *sim.RunCtx) {
	t := rc.T
	if t.Bool(1, 8) {
		c07Eval(rc)
		return
	}
	allFaults := []sim.FaultKind{sim.FGoErr, sim.FUgoErr, sim.FPanicStr, sim.FPanicErr, sim.FPanicRT, sim.FPanicObj}

	// observation script
	og := newGen(t, genConfig{Modules: true, Hosts: true, Consts: t.Bool(1, 2), Params: true, Share: true, MaxStmts: 10})
	obsSrc, obsMods := og.program()
	if t.Bool(1, 2) {
		// end the observation with an error thrown at a drawn call depth and never caught: a handler or frame left
		// behind by an earlier run at that depth would intercept it
		d := 1 + t.Draw(8)
		i := strings.LastIndex(obsSrc, "return [")
		obsSrc = obsSrc[:i] + "zobs := " + obsSrc[i+len("return "):] + "var zthrow\nzthrow = func(n) {\n\tif n == 0 { throw \"too big\" }\n\treturn zthrow(n - 1) + 1\n}\nlog(zobs)\nreturn zthrow(" + fmt.Sprint(d) + ")\n"
	}
	allMods := append(append([]srcModule{}, fixedModules...), obsMods...)

	// prior runs
	nPrior := 1 + t.Draw(6)
	var priors []c07Prior
	for i := 0; i < nPrior; i++ {
		var p c07Prior
		k := t.Draw(len(c07Templates) + 3)
		switch {
		case k < len(c07Templates):
			p.kind = c07Templates[k].name
			p.src = c07Templates[k].src
			if p.kind == "loop-in-child" || p.kind == "loop-with-closures" || p.kind == "loop-under-try-frames" {
				p.abortAt = int64(20 + t.Draw(3000))
			}
			p.spec = sim.DrawWorldSpec(t, "p", 1, 1, 1, allFaults, 3, 8)
			if p.kind == "panic-in-finally-in-child" || p.kind == "host-panic-under-try-frames" {
				p.spec.Faults = []sim.FaultAt{{ID: 0, Occ: 0, Kind: allFaults[t.Draw(len(allFaults))]}}
			}
		default:
			// a generated script, possibly with host faults, possibly aborted at instruction k
			pg := newGen(t, genConfig{Modules: true, Hosts: true, Consts: false, Share: true, MaxStmts: 8})
			pg.nvar = 5000 * (i + 1)
			p.src, p.mods = pg.program()
			// module names must be unique across programs of one module map
			for mi := range p.mods {
				old := p.mods[mi].Name
				nn := fmt.Sprintf("p%d%s", i, old)
				p.src = strings.ReplaceAll(p.src, "\""+old+"\"", "\""+nn+"\"")
				for mj := range p.mods {
					p.mods[mj].Src = strings.ReplaceAll(p.mods[mj].Src, "\""+old+"\"", "\""+nn+"\"")
				}
				p.mods[mi].Name = nn
			}
			allMods = append(allMods, p.mods...)
			p.kind = "generated"
			p.spec = sim.DrawWorldSpec(t, "p", 4, 3, 3, allFaults, 3, 8)
			if k == len(c07Templates)+1 {
				p.kind = "generated-aborted"
				p.abortAt = int64(1 + t.Draw(400))
			}
			if k == len(c07Templates)+2 {
				p.kind = "same-as-observed"
				p.src, p.mods = obsSrc, nil
			}
		}
		priors = append(priors, p)
	}
	mm := newModuleMap(allMods)
	noOpt := t.Bool(1, 3)
	obsBC, err := compile(obsSrc, mm, noOpt, 0)
	if err != nil {
		rc.Discard = "compile-error"
		rc.Logf("compile obs: %v", err)
		return
	}
	recoverOn := t.Bool(3, 4)
	obsFaults := allFaults
	if !recoverOn {
		// without recovery a host panic is supposed to reach the caller: only errors then
		obsFaults = allFaults[:2]
	}
	obsSpec := sim.DrawWorldSpec(t, "obs", 4, 3, 2, obsFaults, 3, 16)

	// the observation declares `param (PA, PB)`: run it with 0–3 arguments
	obsArgs := []ugo.Object{ugo.Int(3), ugo.String("arg"), ugo.Int(9)}[:t.Pick(1, 1, 4, 1)]
	type compiled struct {
		bc *ugo.Bytecode
		fp string
	}
	var pbcs []compiled
	for _, p := range priors {
		bc, err := compile(p.src, mm, t.Bool(1, 3), 0)
		if err != nil {
			rc.Discard = "compile-error"
			rc.Logf("compile prior %s: %v", p.kind, err)
			return
		}
		pbcs = append(pbcs, compiled{bc, sim.Fingerprint(bc)})
	}
	obsFP := sim.Fingerprint(obsBC)

	// the observed run receives its globals as a Map or (a quarter of the runs) as a *SyncMap, whatever kind of globals
	// object the earlier runs on the VM were given
	obsSync := t.Bool(1, 4)
	if obsSync {
		rc.Probe("observed-run-with-syncmap-globals")
	}
	runObs := func(vm *ugo.VM) c08Result {
		w := sim.NewWorld(obsSpec, nil)
		sc := &sim.StepCounter{Cap: 150000}
		restore := sc.Install()
		defer restore()
		var ret ugo.Object
		var err error
		func() {
			defer func() {
				// no host panic is injected when recovery is off, and recovery on must hold everything back:
				// whatever arrives here was raised by the VM itself
				if r := recover(); r != nil {
					err = fmt.Errorf("Go panic escaped from VM.Run (recovery %v): %s at %s", recoverOn, msgClass(r), panicSite("github.com/ozanh/ugo"))
				}
			}()
			var globals ugo.Object = w.Globals
			if obsSync {
				globals = &ugo.SyncMap{Value: w.Globals}
			}
			ret, err = vm.Run(globals, obsArgs...)
		}()
		res := c08Result{out: sim.MakeOutcome(ret, err, w.Hist)}
		if sc.Capped {
			res.trace = "capped"
		}
		return res
	}

	// reference: brand-new VM, fresh children only
	pool := &sim.SimPool{T: t, Always: 1}
	restorePool := pool.Install()
	fresh1 := runObs(ugo.NewVM(obsBC).SetRecover(recoverOn))
	fresh2 := runObs(ugo.NewVM(obsBC).SetRecover(recoverOn))
	if !fresh1.out.Equal(fresh2.out) {
		// Two brand-new VMs, same Bytecode, same globals, same arguments, same host world. Either the script prints
		// something whose order Go leaves open (a generator fault: the run is discarded), or the outcome depends on
		// what the process did before - then the first execution is the odd one and all later ones agree.
		fresh3 := runObs(ugo.NewVM(obsBC).SetRecover(recoverOn))
		fresh4 := runObs(ugo.NewVM(obsBC).SetRecover(recoverOn))
		fresh5 := runObs(ugo.NewVM(obsBC).SetRecover(recoverOn))
		restorePool()
		if fresh2.out.Equal(fresh3.out) && fresh3.out.Equal(fresh4.out) && fresh4.out.Equal(fresh5.out) {
			rc.Decoded = map[string]any{"observed": obsSrc, "first": fresh1.out.String(), "later": fresh2.out.String()}
			rc.Fail("outcome-depends-on-process-history", "new-vm-differs:first-execution-in-process", "the same Bytecode run on five brand-new VMs with equal globals, arguments and host world: the first execution differs from the four later ones, which agree\n first: %s\n later: %s\nscript:\n%s", fresh1.out, fresh2.out, obsSrc)
			return
		}
		rc.Discard = "workload-not-self-deterministic"
		return
	}
	restorePool()
	if fresh1.trace == "capped" {
		rc.Discard = "workload-too-long"
		return
	}

	// the used VM; its pool recycles child VMs released by earlier runs
	pool2 := &sim.SimPool{T: t}
	restorePool2 := pool2.Install()
	defer restorePool2()
	vm := ugo.NewVM(pbcs[0].bc).SetRecover(true)
	var kinds []string
	faulty := false
	for i, p := range priors {
		if i > 0 {
			switch t.Draw(3) {
			case 0:
				vm.SetBytecode(pbcs[i].bc)
			case 1:
				vm.Clear()
				vm.SetBytecode(pbcs[i].bc)
			default:
				vm.SetBytecode(pbcs[i].bc)
				vm.Clear()
			}
		}
		// a host panic that escapes Run (recovery off) leaves the frames as they were
		escape := p.kind == "host-panic-under-try-frames" && t.Bool(1, 2)
		vm.SetRecover(!escape)
		w := sim.NewWorld(p.spec, nil)
		sc := &sim.StepCounter{Cap: 300000, AbortAt: p.abortAt}
		restore := sc.Install()
		var perr error
		func() {
			defer func() {
				if r := recover(); r != nil {
					if !escape {
						panic(r)
					}
					perr = fmt.Errorf("panic: escaped from Run with recovery off: %v", r)
				}
			}()
			if p.kind == "nil-globals-writer" {
				_, perr = vm.Run(nil)
			} else {
				_, perr = vm.Run(w.Globals, ugo.Int(i))
			}
		}()
		restore()
		rc.Steps += sc.Steps
		end := "return"
		switch {
		case sc.Fired && perr != nil:
			end = "aborted"
			rc.Fault("abort-at-instruction")
		case sc.Capped:
			end = "capped"
		case perr != nil && strings.Contains(perr.Error(), "panic:"):
			end = "panic"
		case perr != nil && strings.Contains(perr.Error(), "StackOverflow"):
			end = "overflow"
		case perr != nil:
			end = "error"
		}
		if end != "return" {
			faulty = true
		}
		for _, f := range w.Fired {
			rc.Fault("host-" + f.Kind.String())
		}
		rc.Probe("prior-" + p.kind + "-ended-" + end)
		kinds = append(kinds, p.kind+":"+end)
		if fp := sim.Fingerprint(pbcs[i].bc); fp != pbcs[i].fp {
			rc.Decoded = map[string]any{"prior": p.src, "kind": p.kind, "ended": end}
			rc.Fail("bytecode-modified", "bytecode-modified:"+p.kind, "executing the %s program (ended: %s) modified its Bytecode\n%s", p.kind, end, p.src)
			return
		}
	}
	// reset
	last := priors[len(priors)-1]
	reset := t.Draw(4)
	resetName := ""
	switch {
	case last.kind == "same-as-observed" && reset == 3:
		// same Bytecode object again after Clear
		vm.Clear()
		resetName = "Clear (same bytecode again)"
		obsBC = pbcs[len(pbcs)-1].bc
		obsFP = pbcs[len(pbcs)-1].fp
	case reset == 0:
		vm.SetBytecode(obsBC)
		resetName = "SetBytecode"
	case reset == 1:
		vm.Clear()
		vm.SetBytecode(obsBC)
		resetName = "Clear+SetBytecode"
	default:
		vm.SetBytecode(obsBC)
		vm.Clear()
		resetName = "SetBytecode+Clear"
	}
	if last.kind == "same-as-observed" && reset == 3 {
		// the reference must then be what a fresh VM does with *that* bytecode (same source, maybe other optimizer setting)
		restorePool2()
		p1 := &sim.SimPool{T: t, Always: 1}
		r := p1.Install()
		fresh1 = runObs(ugo.NewVM(obsBC).SetRecover(recoverOn))
		r()
		restorePool2 = pool2.Install()
	}
	vm.SetRecover(recoverOn)
	used := runObs(vm)
	if pool2.Recycled > 0 {
		rc.Probe("child-vm-recycled-from-earlier-run")
	}
	rc.Logf("kinds=%v reset=%s fresh=%s", kinds, resetName, fresh1.out)
	if faulty {
		rc.Sig = strings.Join(kinds, ",") + "|" + resetName
		if rc.Index%53 == 0 {
			rc.Sample = map[string]any{"prior_runs": kinds, "reset": resetName, "observation_script": obsSrc, "outcome": fresh1.out.String()}
		}
	}
	decoded := func() map[string]any {
		d := map[string]any{"prior_runs": kinds, "reset": resetName, "observation_script": obsSrc, "recover": recoverOn}
		var ps []string
		for _, p := range priors {
			ps = append(ps, fmt.Sprintf("// %s abortAt=%d faults=%v\n%s", p.kind, p.abortAt, p.spec.Faults, p.src))
		}
		d["prior_scripts"] = ps
		return d
	}
	if !used.out.Equal(fresh1.out) {
		rc.Decoded = decoded()
		what := "outcome"
		if used.out.Kind == fresh1.out.Kind && used.out.Value == fresh1.out.Value {
			what = "history"
		}
		rc.Fail("history-dependent-outcome", "used-vm-differs:"+what+":after-"+kinds[len(kinds)-1],
			"after prior runs %v and reset %s the observation script ran differently than on a new VM\n new VM:  %s\n used VM: %s\nobservation script:\n%s", kinds, resetName, fresh1.out, used.out, obsSrc)
		return
	}
	if fp := sim.Fingerprint(obsBC); fp != obsFP {
		rc.Decoded = decoded()
		rc.Fail("bytecode-modified", "bytecode-modified:observation", "executing the observation script modified its Bytecode")
		return
	}
	// a script run without globals gets an empty global scope of its own, whatever ran before
	readerBC := mustCompile("global (gx, gy)\nreturn [gx, gy]\n", mm, false)
	if t.Bool(1, 2) {
		vm.Clear()
	}
	vm.SetBytecode(readerBC)
	r1, e1 := vm.Run(nil)
	r2, e2 := ugo.NewVM(readerBC).Run(nil)
	if a, b := sim.MakeOutcome(r1, e1, nil), sim.MakeOutcome(r2, e2, nil); !a.Equal(b) {
		rc.Decoded = decoded()
		rc.Fail("history-dependent-outcome", "used-vm-differs:nil-globals", "a script run with nil globals sees state of earlier runs: used VM %s, new VM %s (prior runs %v)", a, b, kinds)
	}
}

func init() {
	sim.Register(&sim.Engine{
		ID:    "C07",
		Level: "exploration",
		Rule: "each run draws a history of 1–6 prior runs on one VM — generated scripts (with host errors and recovered panics), the same script that is observed later, and fixed resource-edge programs (frame overflow, value-stack overflow, deep throw through finally blocks, loop inside a child-VM callback, closure-heavy loop, panic in a finally inside a child VM, modules then error), some aborted at a drawn instruction — with SetBytecode/Clear in drawn order between them, " +
			"then a drawn reset (SetBytecode | Clear+SetBytecode | SetBytecode+Clear | Clear for the same Bytecode) and a generated observation script. Oracle: outcome and history equal those on a brand-new VM; every Bytecode's semantic fingerprint is unchanged after every run. " +
			"Non-trivial = at least one prior run ended abnormally; distinct = distinct (termination-kind sequence, reset).",
		Assumptions: []string{"map iteration order is excluded by construction; workloads whose two fresh runs differ are discarded", "the used VM may receive recycled child VMs (tape-drawn pool policy), the fresh VM only new ones"},
		Real:        []string{"VM.Run/Clear/SetBytecode/Abort", "Invoker/vmPool", "compiler"},
		Simulated:   []string{"abort instant (per-instruction hook, synchronous)", "host functions and their failures", "child-VM sync.Pool policy"},
		Runs: func(tier string) int {
			if tier == "thorough" {
				return 2000000
			}
			return 40000
		},
		WallCap: func(tier string) float64 {
			if tier == "thorough" {
				return 1500
			}
			return 120
		},
		Run:          c07Run,
		ShrinkBudget: 800,
	})
}
