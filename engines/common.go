package engines

import (
	"encoding/gob"
	"fmt"
	"math"

	"github.com/ozanh/ugo"
	ugofmt "github.com/ozanh/ugo/stdlib/fmt"
	"github.com/ozanh/ugo/stdlib/json"
	"github.com/ozanh/ugo/stdlib/strings"
	ugotime "github.com/ozanh/ugo/stdlib/time"
)

// hostModuleAttrs returns a fresh attribute map of the simulator's builtin
// module "host": every value kind, mutable containers, and functions.
// HostState is a stateful builtin-module value that is *not* a Copier: the
// module's Go functions and every program that imports the module share this
// one object (after decoding only through the re-binding of fixObjects).
type HostState struct {
	ugo.ObjectImpl
	N int
}

func (o *HostState) TypeName() string { return "hoststate" }
func (o *HostState) String() string   { return "<hoststate>" }
func (o *HostState) IndexGet(index ugo.Object) (ugo.Object, error) {
	if index.String() == "n" {
		return ugo.Int(o.N), nil
	}
	return ugo.Undefined, nil
}
func (o *HostState) CanonID() string { return "hoststate" }

func init() { gob.Register((*HostState)(nil)) }

var hostStates []*HostState

// resetHostStates zeroes the Go-side state of every host module built so far.
func resetHostStates() {
	for _, st := range hostStates {
		st.N = 0
	}
}

func hostModuleAttrs() map[string]ugo.Object {
	hostStates = hostStates[:0] // one live module map per run (plus, after it, a second tenant's: hostModuleAttrsMore)
	return hostModuleAttrsMore()
}

func hostModuleAttrsMore() map[string]ugo.Object {
	st := &HostState{}
	hostStates = append(hostStates, st)
	liveArr := ugo.Array{ugo.Int(1), ugo.Int(2), ugo.Int(3)}
	return map[string]ugo.Object{
		// reads the host's own array object, which scripts never get to write (they work on their VM's copy)
		"arrsum": &ugo.Function{Name: "arrsum", Value: func(args ...ugo.Object) (ugo.Object, error) {
			s := 0
			for _, v := range liveArr {
				if i, ok := v.(ugo.Int); ok {
					s += int(i)
				} else {
					s += 1000
				}
			}
			return ugo.Int(s), nil
		}},
		"state": st,
		"sync":  &ugo.SyncMap{Value: ugo.Map{"a": ugo.Int(1)}},
		"esync": &ugo.SyncMap{Value: ugo.Map{}},
		"emap":  ugo.Map{},
		"":      ugo.Int(99), // an attribute with the empty name
		"errA":  &ugo.Error{Name: "NotFound", Message: "no such thing"},
		"errB":  &ugo.Error{Name: "Timeout", Message: "too slow"},
		"rterr": (&ugo.Error{Name: "Wrapped", Message: "inner"}).NewError("outer"),
		"bump": &ugo.Function{Name: "bump", Value: func(args ...ugo.Object) (ugo.Object, error) {
			st.N++
			return ugo.Int(st.N), nil
		}},
		"int":    ugo.Int(-42),
		"maxint": ugo.Int(math.MaxInt64),
		"minint": ugo.Int(math.MinInt64),
		"uint":   ugo.Uint(math.MaxUint64),
		"char":   ugo.Char('ğ'),
		"float":  ugo.Float(2.5),
		"nzero":  ugo.Float(math.Copysign(0, -1)),
		"inf":    ugo.Float(math.Inf(-1)),
		"t":      ugo.True,
		"f":      ugo.False,
		"undef":  ugo.Undefined,
		"str":    ugo.String("hostile\x00\xff"),
		"empty":  ugo.String(""),
		"bytes":  ugo.Bytes{0, 1, 2, 255},
		"arr":    liveArr,
		"map":    ugo.Map{"k": ugo.Int(7)},
		"nested": ugo.Map{"arr": ugo.Array{ugo.Int(0), ugo.Map{"deep": ugo.String("x")}}},
		"double": &ugo.Function{Name: "double", Value: func(args ...ugo.Object) (ugo.Object, error) {
			if len(args) != 1 {
				return nil, ugo.ErrWrongNumArguments.NewError("want=1")
			}
			if v, ok := args[0].(ugo.Int); ok {
				return v * 2, nil
			}
			return nil, ugo.NewArgumentTypeError("first", "int", args[0].TypeName())
		}},
		"ident": &ugo.Function{Name: "ident", Value: func(args ...ugo.Object) (ugo.Object, error) {
			if len(args) == 0 {
				return ugo.Undefined, nil
			}
			return args[0], nil
		}},
	}
}

// srcModule is one generated or fixed source module.
type srcModule struct {
	Name string
	Src  string
}

// newModuleMap builds the module map used by most engines.
func newModuleMap(src []srcModule) *ugo.ModuleMap {
	mm := ugo.NewModuleMap()
	mm.AddBuiltinModule("strings", strings.Module)
	mm.AddBuiltinModule("fmt", ugofmt.Module)
	mm.AddBuiltinModule("json", json.Module)
	mm.AddBuiltinModule("time", ugotime.Module)
	mm.AddBuiltinModule("host", hostModuleAttrs())
	// a module registered under another name than the one its attributes declare
	mm.AddBuiltinModule("host2", map[string]ugo.Object{
		ugo.AttrModuleName: ugo.String("host"),
		"double": &ugo.Function{Name: "double", Value: func(args ...ugo.Object) (ugo.Object, error) {
			if len(args) == 1 {
				if v, ok := args[0].(ugo.Int); ok {
					return v * 3, nil // host2's double is not host's
				}
			}
			return ugo.Undefined, nil
		}},
		"str": ugo.String("this is host2"),
	})
	for _, m := range src {
		mm.AddSourceModule(m.Name, []byte(m.Src))
	}
	return mm
}

// newTenantModuleMap derives a second tenant's module map from mm: same names, but the builtin module "host" has other
// contents (same attribute names and Go types; double triples, other scalars).
func newTenantModuleMap(mm *ugo.ModuleMap) *ugo.ModuleMap {
	mm2 := mm.Copy()
	attrs := hostModuleAttrsMore()
	attrs["double"] = &ugo.Function{Name: "double", Value: func(args ...ugo.Object) (ugo.Object, error) {
		if len(args) != 1 {
			return nil, ugo.ErrWrongNumArguments.NewError("want=1")
		}
		if v, ok := args[0].(ugo.Int); ok {
			return v*3 + 1, nil
		}
		return nil, ugo.NewArgumentTypeError("first", "int", args[0].TypeName())
	}}
	attrs["str"] = ugo.String("second tenant")
	attrs["int"] = ugo.Int(77)
	attrs["map"] = ugo.Map{"k": ugo.Int(70)}
	// and items the first tenant's module does not have at all
	attrs["extra"] = ugo.Int(5)
	attrs["extrafn"] = &ugo.Function{Name: "extrafn", Value: func(args ...ugo.Object) (ugo.Object, error) { return ugo.String("second tenant only"), nil }}
	mm2.AddBuiltinModule("host", attrs)
	return mm2
}

// fixedModules are small source modules used by corpus scripts.
var fixedModules = []srcModule{
	{"modA", `
counter := 0
return {
	inc: func() { counter++; return counter },
	get: func() { return counter },
	fail: func(x) { return x.nosuch.field },
}`},
	// a module whose very first token raises an error (position offset 0 of its file)
	{"modC", "throw error(\"first token of modC\")\n"},
	{"modB", `
a := import("modA")
return {
	twice: func() { a.inc(); return a.inc() },
	boom: func(msg) { throw msg },
}`},
	// sources of size zero and of white space only
	{"modEmpty", ""},
	{"modBlank", "\n\n"},
}

func compile(src string, mm *ugo.ModuleMap, noOpt bool, limit int) (*ugo.Bytecode, error) {
	opts := ugo.CompilerOptions{ModuleMap: mm, NoOptimize: noOpt, OptimizerLimit: limit}
	return ugo.Compile([]byte(src), opts)
}

func mustCompile(src string, mm *ugo.ModuleMap, noOpt bool) *ugo.Bytecode {
	bc, err := compile(src, mm, noOpt, 0)
	if err != nil {
		panic(fmt.Sprintf("harness corpus script does not compile: %v\n%s", err, src))
	}
	return bc
}

// DefaultModuleMap is the module map with the fixed source modules (debug tools).
func DefaultModuleMap() *ugo.ModuleMap { return newModuleMap(fixedModules) }
