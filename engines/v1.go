package engines

import (
	"bytes"

	"github.com/ozanh/ugo"
	"github.com/ozanh/ugo/encoder"
	"github.com/ozanh/ugo/encoder/opv1"
)

// downgradeToV1 re-emits a v2 program with v1 operand widths (2-byte jump
// operands) under a v1 header, so that the v1 conversion path sees inputs of
// the shape a v1 writer produced. Jump targets are not relocated: the result
// is only ever decoded, never executed.
func downgradeToV1(bc *ugo.Bytecode) []byte {
	conv := func(cf *ugo.CompiledFunction) *ugo.CompiledFunction {
		if cf == nil {
			return nil
		}
		var out []byte
		ins := cf.Instructions
		for i := 0; i < len(ins); {
			op := ins[i]
			if int(op) >= len(opv1.OpcodeOperands) || int(op) >= len(ugo.OpcodeOperands) {
				return nil
			}
			w2 := 0
			for _, w := range ugo.OpcodeOperands[op] {
				w2 += w
			}
			if i+1+w2 > len(ins) {
				return nil
			}
			out = append(out, op)
			switch op {
			case opv1.OpJump, opv1.OpJumpFalsy, opv1.OpAndJump, opv1.OpOrJump, opv1.OpSetupTry:
				for k := 0; k < w2; k += 4 { // each 4-byte operand → low 2 bytes
					out = append(out, ins[i+1+k+2], ins[i+1+k+3])
				}
			default:
				out = append(out, ins[i+1:i+1+w2]...)
			}
			i += 1 + w2
		}
		return &ugo.CompiledFunction{NumParams: cf.NumParams, NumLocals: cf.NumLocals, Instructions: out, Variadic: cf.Variadic, SourceMap: cf.SourceMap}
	}
	nb := &ugo.Bytecode{FileSet: bc.FileSet, NumModules: bc.NumModules}
	if nb.Main = conv(bc.Main); nb.Main == nil {
		return nil
	}
	for _, c := range bc.Constants {
		if cf, ok := c.(*ugo.CompiledFunction); ok {
			ncf := conv(cf)
			if ncf == nil {
				return nil
			}
			nb.Constants = append(nb.Constants, ncf)
		} else {
			nb.Constants = append(nb.Constants, c)
		}
	}
	var buf bytes.Buffer
	if err := encoder.EncodeBytecodeTo(nb, &buf); err != nil {
		return nil
	}
	b := buf.Bytes()
	b[5] = 1
	return b
}
