package engines

import (
	"bytes"
	"encoding"
	"encoding/binary"
	"encoding/gob"
	"errors"
	"fmt"
	"io"
	"math"
	"regexp"
	"runtime"
	"runtime/metrics"
	"strings"
	"time"

	"github.com/ozanh/ugo"
	"github.com/ozanh/ugo/encoder"
	ugojson "github.com/ozanh/ugo/stdlib/json"
	ugotime "github.com/ozanh/ugo/stdlib/time"
	"verif/sim"
)

// C18 — decoding malformed bytecode returns an error, never a panic.
//
// Simulated: a storage medium holding the real encoder's output and a reader
// that delivers it. Faults: torn write / lost tail (every truncation), bit rot
// (every offset × 5 values), double corruption, lost sector, misdirected
// write, garbage tail, reader error after k bytes, short reads.
// Real: encoder.DecodeBytecodeFrom, (*Bytecode).UnmarshalBinary, DecodeObject
// (v2 and v1 headers), fixObjects, gob fallback.

const (
	c18TargetFrom   = 0 // DecodeBytecodeFrom(reader)
	c18TargetUnm    = 1 // (*Bytecode).UnmarshalBinary
	c18TargetObject = 2 // DecodeObject from a reader that knows its length
	c18TargetStream = 3 // DecodeObject from an opaque stream (no Len, short reads)
	c18NumTargets   = 4
	// replay-only pseudo targets
	c18ReplayChunk     = 4 // short-read metamorphic oracle on DecodeBytecodeFrom
	c18ReplayReaderErr = 5 // reader fails after the recorded bytes
)

var c18BaseTargetNames = []string{"DecodeBytecodeFrom", "Bytecode.UnmarshalBinary", "DecodeObject", "DecodeObject(stream)"}

// typed receivers of the encoder package that a caller may use directly; targets c18TargetTyped+i
const c18TargetTyped = 10

var c18Typed = []struct {
	name string
	mk   func() encoding.BinaryUnmarshaler
}{
	{"SourceFileSet.UnmarshalBinary", func() encoding.BinaryUnmarshaler { return new(encoder.SourceFileSet) }},
	{"SourceFile.UnmarshalBinary", func() encoding.BinaryUnmarshaler { return new(encoder.SourceFile) }},
	{"CompiledFunction.UnmarshalBinary", func() encoding.BinaryUnmarshaler { return new(encoder.CompiledFunction) }},
	{"Array.UnmarshalBinary", func() encoding.BinaryUnmarshaler { return new(encoder.Array) }},
	{"Map.UnmarshalBinary", func() encoding.BinaryUnmarshaler { return new(encoder.Map) }},
	{"SyncMap.UnmarshalBinary", func() encoding.BinaryUnmarshaler { return new(encoder.SyncMap) }},
}

func c18TargetName(t int) string {
	if t >= c18TargetTyped && t < c18TargetTyped+len(c18Typed) {
		return c18Typed[t-c18TargetTyped].name
	}
	if t >= 0 && t < len(c18BaseTargetNames) {
		return c18BaseTargetNames[t]
	}
	return fmt.Sprint("target ", t)
}

var numRe = regexp.MustCompile(`[0-9]+`)
var hexRe = regexp.MustCompile(`0x[0-9a-f]+`)

// panicSite finds the innermost frame inside ugo of the current (panicking) stack.
func panicSite(prefixes ...string) string {
	pcs := make([]uintptr, 64)
	n := runtime.Callers(3, pcs)
	frames := runtime.CallersFrames(pcs[:n])
	for {
		f, more := frames.Next()
		for _, p := range prefixes {
			if strings.HasPrefix(f.Function, p) {
				fn := strings.TrimPrefix(f.Function, "github.com/ozanh/ugo/")
				return fn
			}
		}
		if !more {
			break
		}
	}
	return "?"
}

func msgClass(r any) string {
	s := fmt.Sprint(r)
	if i := strings.Index(s, "interface conversion:"); i >= 0 {
		s = s[:i] + "interface conversion"
	}
	s = hexRe.ReplaceAllString(s, "X")
	s = numRe.ReplaceAllString(s, "N")
	if len(s) > 70 {
		s = s[:70]
	}
	return s
}

type c18Result struct {
	ok       bool   // decoded without error
	err      error  // decode error
	fp       string // fingerprint on success (bytecode targets)
	panic    string // non-empty: panic key
	pmsg     string
	alloc    uint64
	allocSet bool
	stuck    bool // the second decode into the receiver did not return
	second   bool // the panic struck in the second decode into one receiver
}

var allocSample = []metrics.Sample{{Name: "/gc/heap/allocs:bytes"}}

func heapAllocs() uint64 {
	metrics.Read(allocSample)
	return allocSample[0].Value.Uint64()
}

// faultyReader delivers data in chunks and optionally fails after k bytes.
type faultyReader struct {
	data   []byte
	off    int
	chunk  int   // max bytes per Read (0 = all)
	failAt int   // <0: never
	err    error // error returned at failAt
}

func (r *faultyReader) Read(p []byte) (int, error) {
	if r.failAt >= 0 && r.off >= r.failAt {
		return 0, r.err
	}
	if r.off >= len(r.data) {
		return 0, io.EOF
	}
	n := len(p)
	if r.chunk > 0 && n > r.chunk {
		n = r.chunk
	}
	if n > len(r.data)-r.off {
		n = len(r.data) - r.off
	}
	if r.failAt >= 0 && r.off+n > r.failAt {
		n = r.failAt - r.off
	}
	copy(p, r.data[r.off:r.off+n])
	r.off += n
	return n, nil
}

func c18Decode(target int, data []byte, mm *ugo.ModuleMap, rd io.Reader) (res c18Result) {
	before := heapAllocs()
	defer func() {
		if r := recover(); r != nil {
			site := panicSite("github.com/ozanh/ugo/encoder", "github.com/ozanh/ugo")
			res.panic = "panic:" + site + ":" + msgClass(r)
			res.pmsg = fmt.Sprint(r)
			if res.second {
				res.pmsg += " (in the second UnmarshalBinary into the same receiver)"
			}
		}
		if !res.allocSet {
			res.alloc = heapAllocs() - before
		}
	}()
	switch target {
	case c18TargetFrom:
		if rd == nil {
			rd = bytes.NewReader(data)
		}
		bc, err := encoder.DecodeBytecodeFrom(rd, mm)
		res.err = err
		if err == nil {
			res.ok = true
			res.fp = sim.Fingerprint(bc)
		}
	case c18TargetUnm:
		var bc encoder.Bytecode
		err := bc.UnmarshalBinary(data)
		res.err = err
		if err == nil {
			res.ok = true
			res.fp = sim.Fingerprint((*ugo.Bytecode)(&bc))
		}
		// history on the receiver: the same bytes decoded once more into the value that has just been decoded into
		// (always after a success, for a quarter of the inputs after a failure): an error or a value again, never a panic
		if err == nil || len(data)%4 == 0 {
			res.alloc, res.allocSet = heapAllocs()-before, true // the allocation bound is per decode
			res.second = true
			_ = bc.UnmarshalBinary(data)
			res.second = false
		}
	default:
		if target >= c18TargetTyped && target < c18TargetTyped+len(c18Typed) {
			// a typed receiver, decoded into twice (history on the receiver: an error or a value again, never a panic)
			x := c18Typed[target-c18TargetTyped].mk()
			err := x.UnmarshalBinary(data)
			res.err = err
			res.ok = err == nil
			res.alloc, res.allocSet = heapAllocs()-before, true
			res.second = true
			var inner any
			if !sim.Watchdog(15*time.Second, func() {
				defer func() { inner = recover() }()
				_ = x.UnmarshalBinary(data)
			}) {
				res.stuck = true
			}
			if inner != nil {
				panic(inner)
			}
			res.second = false
		}
	case c18TargetStream:
		// an io.Reader that cannot report its length (file, connection, bufio): 7-byte reads
		o, err := encoder.DecodeObject(&faultyReader{data: data, chunk: 7, failAt: -1})
		res.err = err
		if err == nil {
			res.ok = true
			_ = o
		}
	case c18TargetObject:
		o, err := encoder.DecodeObject(bytes.NewReader(data))
		res.err = err
		if err == nil {
			res.ok = true
			_ = o
		}
	}
	return
}

// c18Inputs builds the valid encodings a program yields: v2 bytecode, the same
// payload under a v1 header, a down-converted v1 program, and object encodings.
type c18Input struct {
	name   string
	target []int
	data   []byte
}

func c18AllocBound(n int) uint64 { return 16<<20 + 256*uint64(n) }

func caseTape(target int, data []byte) []uint64 {
	t := make([]uint64, 0, len(data)+2)
	t = append(t, uint64(target), uint64(len(data)))
	for _, b := range data {
		t = append(t, uint64(b))
	}
	return t
}

// c18Check applies the oracles to one corrupted input for one target.
func c18Check(rc *sim.RunCtx, target int, data []byte, mm *ugo.ModuleMap, what string) c18Result {
	rc.SubEvals++
	res := c18Decode(target, data, mm, nil)
	if res.panic != "" {
		rc.FailCase(caseTape(target, data), "decoder-panic", res.panic,
			"%s panicked on %s (len %d): %s", c18TargetName(target), what, len(data), res.pmsg)
	} else if res.alloc > c18AllocBound(len(data)) {
		rc.FailCase(caseTape(target, data), "alloc-out-of-proportion", "alloc:"+c18TargetName(target),
			"%s allocated %d bytes for a %d-byte input (%s); bound is 16 MiB + 256×len", c18TargetName(target), res.alloc, len(data), what)
	}
	if res.stuck {
		rc.Fatal = true
		rc.FailCase(caseTape(target, data), "decode-does-not-return", "stuck:"+c18TargetName(target),
			"the second %s into one receiver did not return within 15 s (%s, len %d): neither a value nor an error", c18TargetName(target), what, len(data))
	}
	if res.ok {
		rc.Probe("corrupt-input-decoded-ok")
	}
	return res
}

var errInjected = errors.New("injected read error")

// c18WeirdObjects are encodings of objects a decoder may meet where it expects something else: zero-valued and
// nil-field values of every gob-registered type, a nil interface, nested containers.
var c18WeirdObjects = func() [][]byte {
	var out [][]byte
	gobObj := func(v ugo.Object) {
		var b bytes.Buffer
		b.WriteByte(255)
		if err := gob.NewEncoder(&b).Encode(&v); err == nil {
			out = append(out, b.Bytes())
		}
	}
	gobObj(&ugojson.EncoderOptions{})
	gobObj(&ugojson.RawMessage{})
	gobObj(&ugotime.Time{})
	gobObj(&ugo.ObjectPtr{})
	gobObj(&ugo.RuntimeError{})
	gobObj(&ugo.Error{})
	gobObj(&ugo.SyncMap{})
	{
		// a gob stream carrying a nil interface value
		var b bytes.Buffer
		b.WriteByte(255)
		var v ugo.Object
		if err := gob.NewEncoder(&b).Encode(&v); err == nil {
			out = append(out, b.Bytes())
		}
		out = append(out, []byte{255, 3, 16, 0, 0})
	}
	for _, o := range []ugo.Object{ugo.Undefined, ugo.True, ugo.Int(7), ugo.Uint(7), ugo.Char('x'), ugo.Float(1.5), ugo.Bytes{1}, ugo.Array{}, ugo.Map{}, ugo.String("s")} {
		if m, err := encoder.Array(ugo.Array{o}).MarshalBinary(); err == nil && len(m) > 4 {
			// strip the array wrapper: tag, size field (count byte + varint), length field (count byte + varint)
			i := 1
			i += 1 + int(m[i])
			i += 1 + int(m[i])
			if i < len(m) {
				out = append(out, m[i:])
			}
		}
	}
	return out
}()

// c18Crafted derives structurally well-formed but semantically confused inputs from a valid encoding.
func c18Crafted(v2 []byte, bc *ugo.Bytecode) [][]byte {
	var out [][]byte
	// 1. each top-level field's object replaced by each weird object
	for _, field := range []byte{1, 2, 3} {
		for _, w := range c18WeirdObjects {
			in := append([]byte(nil), v2[:6]...)
			in = append(in, field)
			in = append(in, w...)
			out = append(out, in)
		}
	}
	// 2. the file-name slot of the first source file replaced by each weird object (hand-assembled file set)
	lenField := func(n int) []byte {
		b := make([]byte, 1+binary.MaxVarintLen64)
		k := binary.PutVarint(b[1:], int64(n))
		b[0] = byte(k)
		return b[:k+1]
	}
	for _, w := range c18WeirdObjects {
		var file []byte
		file = append(file, w...)           // name
		file = append(file, lenField(1)...) // base
		file = append(file, lenField(10)...)
		file = append(file, lenField(1)...) // one line
		file = append(file, lenField(0)...)
		var fs []byte
		fs = append(fs, lenField(12)...) // set base
		fs = append(fs, lenField(1)...)  // one file
		fs = append(fs, lenField(len(file))...)
		fs = append(fs, file...)
		in := append([]byte(nil), v2[:6]...)
		in = append(in, 0)
		sz, _ := encoder.Int(len(fs)).MarshalBinary()
		in = append(in, sz...)
		in = append(in, fs...)
		out = append(out, in)
	}
	// 4. a valid program whose constants also hold values no compiler emits but any host may put there (and any
	// encoder writes): errors named like builtin errors, builtin functions and nothing at all, runtime errors, times
	// with and without location, pointers, sync maps, nested containers of them
	{
		extras := []ugo.Object{
			&ugo.Error{Name: "error", Message: "boom"}, &ugo.Error{Name: "len"}, &ugo.Error{Name: "TypeError", Message: "x"}, &ugo.Error{},
			&ugo.Error{Name: "__module_name__"}, &ugo.Error{Name: "ZeroDivisionError", Cause: ugo.ErrZeroDivision},
			(&ugo.Error{Name: "Wrapped", Message: "inner"}).NewError("outer"),
			&ugotime.Time{Value: time.Unix(1600000000, 5).UTC()}, &ugotime.Time{Value: time.Unix(1, 0).In(time.FixedZone("X", 3600))},
			&ugo.SyncMap{Value: ugo.Map{"t": &ugotime.Time{Value: time.Unix(2, 0)}}},
			ugo.Map{"e": &ugo.Error{Name: "printf"}, "a": ugo.Array{&ugo.Error{Name: "append", Message: "m"}}},
		}
		for i := range extras {
			cp := *bc
			cp.Constants = append(append([]ugo.Object{}, bc.Constants...), extras[i], extras[(i+3)%len(extras)])
			var b bytes.Buffer
			if err := encoder.EncodeBytecodeTo(&cp, &b); err == nil {
				out = append(out, b.Bytes())
			}
		}
	}
	// 3. names of builtin modules replaced by same-length names of source modules and of modules that do not exist
	for _, pair := range [][2]string{{"host", "modA"}, {"host", "modB"}, {"json", "modA"}, {"time", "modC"}, {"host", "nope"}, {"strings", "modules"}} {
		if i := bytes.Index(v2, []byte(pair[0])); i >= 0 {
			c := append([]byte(nil), v2...)
			for j := 0; j+len(pair[0]) <= len(c); j++ {
				if string(c[j:j+len(pair[0])]) == pair[0] {
					copy(c[j:], pair[1])
				}
			}
			out = append(out, c)
		}
	}
	return out
}

// c18LengthPatterns are well-formed length fields of the format (count byte + zig-zag varint) with extreme values,
// plus malformed ones.
var c18LengthPatterns = func() [][]byte {
	var out [][]byte
	for _, v := range []int64{1 << 16, 1 << 20, 1 << 24, 1 << 26, 1 << 31, 1 << 40, 1<<62 + 5, -7, math.MaxInt64, math.MaxInt64 - 1, math.MaxInt64 - 9, math.MinInt64} {
		b := make([]byte, 1+binary.MaxVarintLen64)
		n := binary.PutVarint(b[1:], v)
		b[0] = byte(n)
		out = append(out, b[:n+1])
	}
	out = append(out, []byte{10, 0xFF, 0xFF, 0xFF, 0xFF, 0xFF, 0xFF, 0xFF, 0xFF, 0xFF, 0x01}, []byte{11, 0x80}, []byte{0xFF}, []byte{3, 0x80, 0x80, 0x80})
	return out
}()

// c18SizedTagOffsets lists the offsets whose byte equals the tag of a size-prefixed type (string … builtin function).
func c18SizedTagOffsets(d []byte) []int {
	var out []int
	for i, b := range d {
		if b >= 7 && b <= 14 {
			out = append(out, i)
		}
	}
	return out
}

// c18ChunkOracle: delivering the same bytes in short reads never changes the
// result (success and decoded program; error texts are not compared because
// fixObjects reports the first mismatch in Go map order). chunk 0 = try 1..17.
func c18ChunkOracle(rc *sim.RunCtx, d []byte, mm *ugo.ModuleMap, chunk int) {
	base := c18Decode(c18TargetFrom, d, mm, nil)
	rc.SubEvals++
	lo, hi := chunk, chunk
	if chunk == 0 {
		lo, hi = 1, 17
	}
	for c := lo; c <= hi; c++ {
		chunked := c18Decode(c18TargetFrom, d, mm, &faultyReader{data: d, chunk: c, failAt: -1})
		rc.SubEvals++
		if chunked.panic != "" {
			rc.FailCase(caseTape(c18TargetFrom, d), "decoder-panic", chunked.panic, "panic with %d-byte reads: %s", c, chunked.pmsg)
		} else if base.panic == "" && (base.ok != chunked.ok || base.fp != chunked.fp) {
			rc.FailCase(caseTape(c18ReplayChunk, d), "chunking-changes-result", "chunking-changes-result",
				"decoding with %d-byte reads differs from decoding at once: ok=%v err=%v vs ok=%v err=%v", c, base.ok, base.err, chunked.ok, chunked.err)
		}
	}
}

// c18ReaderErrOracle: a reader error after k bytes is returned by the decoder.
func c18ReaderErrOracle(rc *sim.RunCtx, d []byte, k, chunk int, mm *ugo.ModuleMap) {
	fr := &faultyReader{data: d, chunk: chunk, failAt: k, err: errInjected}
	failed := c18Decode(c18TargetFrom, d, mm, fr)
	rc.SubEvals++
	if failed.panic != "" {
		rc.FailCase(caseTape(c18TargetFrom, d[:k]), "decoder-panic", failed.panic, "panic with reader failing after %d bytes: %s", k, failed.pmsg)
	} else if !errors.Is(failed.err, errInjected) {
		rc.FailCase(caseTape(c18ReplayReaderErr, d[:k]), "reader-error-lost", "reader-error-lost",
			"reader failed after %d of %d bytes but decode returned ok=%v err=%v", k, len(d), failed.ok, failed.err)
	}
}

func c18Run(rc *sim.RunCtx) {
	mm := newModuleMap(fixedModules)
	if rc.T.IsReplay() {
		// replay: the tape is the failing case itself: target, length, bytes
		target := rc.T.Draw(c18TargetTyped + len(c18Typed))
		n := rc.T.Draw(1 << 20)
		data := make([]byte, n)
		for i := range data {
			data[i] = byte(rc.T.Draw(256))
		}
		switch target {
		case c18ReplayChunk:
			c18ChunkOracle(rc, data, mm, 0)
			target = c18TargetFrom
		case c18ReplayReaderErr:
			c18ReaderErrOracle(rc, data, len(data), 7, mm)
			target = c18TargetFrom
		default:
			c18Check(rc, target, data, mm, "replayed input")
		}
		rc.Decoded = map[string]any{"target": c18TargetName(target), "input_hex": fmt.Sprintf("%x", data)}
		return
	}
	nProg, nSampled := c18Sizes(rc.Tier)
	var prog int
	enumerate := rc.Index < nProg
	if enumerate {
		prog = rc.Index
	} else {
		prog = (rc.Index - nProg) % nProg
	}
	// the program depends on (seed, prog) only
	pt := sim.NewTape(rc.Seed, "C18-program", prog)
	src, mods := genStorageProgram(pt, prog)
	mm = newModuleMap(append(append([]srcModule{}, fixedModules...), mods...))
	bc, err := compile(src, mm, pt.Bool(1, 3), 0)
	if err != nil {
		rc.Discard = "program-does-not-compile"
		rc.Logf("compile error: %v", err)
		return
	}
	var buf bytes.Buffer
	if err := encoder.EncodeBytecodeTo(bc, &buf); err != nil {
		rc.Discard = "encode-error"
		return
	}
	v2 := buf.Bytes()
	inputs := []c18Input{{"v2", []int{c18TargetFrom, c18TargetUnm}, v2}}
	v1hdr := append([]byte(nil), v2...)
	v1hdr[5] = 1
	inputs = append(inputs, c18Input{"v2-payload-under-v1-header", []int{c18TargetUnm}, v1hdr})
	if v1 := downgradeToV1(bc); v1 != nil {
		inputs = append(inputs, c18Input{"v1", []int{c18TargetUnm}, v1})
		rc.Probe("v1-downgrade-built")
	}
	if ob, err := encoder.Array(bc.Constants).MarshalBinary(); err == nil && len(ob) < 1500 {
		inputs = append(inputs, c18Input{"object:constants", []int{c18TargetObject, c18TargetStream}, ob})
	}
	if ob, err := (*encoder.CompiledFunction)(bc.Main).MarshalBinary(); err == nil {
		inputs = append(inputs, c18Input{"object:main", []int{c18TargetObject, c18TargetStream}, ob})
	}
	extra := ugo.Array{ugo.Map{"e": &ugo.Error{Name: "N", Message: "m"}}, &ugo.SyncMap{Value: ugo.Map{"a": ugo.Int(1)}}, ugo.Bytes{1, 2}, ugo.Char('x'), ugo.Uint(7), ugo.Float(1.5),
		&ugotime.Time{Value: time.Unix(1600000000, 5).UTC()}}
	if ob, err := encoder.Array(extra).MarshalBinary(); err == nil {
		inputs = append(inputs, c18Input{"object:gob-and-syncmap", []int{c18TargetObject, c18TargetStream}, ob})
	}

	// typed receivers: the file set and its first file in full, the others (which DecodeObject reaches too) light
	if bc.FileSet != nil {
		if ob, err := (*encoder.SourceFileSet)(bc.FileSet).MarshalBinary(); err == nil && len(ob) < 800 {
			inputs = append(inputs, c18Input{"typed:fileset", []int{c18TargetTyped + 0}, ob})
		}
		if len(bc.FileSet.Files) > 0 {
			if ob, err := (*encoder.SourceFile)(bc.FileSet.Files[0]).MarshalBinary(); err == nil && len(ob) < 400 {
				inputs = append(inputs, c18Input{"typed:file", []int{c18TargetTyped + 1}, ob})
			}
		}
	}
	var light []c18Input
	if ob, err := (*encoder.CompiledFunction)(bc.Main).MarshalBinary(); err == nil {
		light = append(light, c18Input{"typed:main", []int{c18TargetTyped + 2}, ob})
	}
	if ob, err := encoder.Array(bc.Constants).MarshalBinary(); err == nil {
		light = append(light, c18Input{"typed:constants", []int{c18TargetTyped + 3}, ob})
	}
	if ob, err := encoder.Map(ugo.Map{"a": ugo.Int(1), "e": &ugo.Error{Name: "N", Message: "m"}, "s": ugo.Array{ugo.String("x")}}).MarshalBinary(); err == nil {
		light = append(light, c18Input{"typed:map", []int{c18TargetTyped + 4}, ob})
	}
	if ob, err := (*encoder.SyncMap)(&ugo.SyncMap{Value: ugo.Map{"a": ugo.Int(1)}}).MarshalBinary(); err == nil {
		light = append(light, c18Input{"typed:syncmap", []int{c18TargetTyped + 5}, ob})
	}
	for _, in := range light {
		// valid input and every 3rd truncation
		for t := len(in.data); t >= 0; t -= 3 {
			c18Check(rc, in.target[0], in.data[:t], mm, fmt.Sprintf("%s truncated at %d", in.name, t))
			rc.Fault("truncation")
		}
	}

	// crafted inputs: type confusion (an object of another type where the format expects a particular one) and
	// name confusion (a module name replaced by the name of a module of another kind)
	crafted := c18Crafted(v2, bc)
	for i, cd := range crafted {
		for _, tg := range []int{c18TargetFrom, c18TargetUnm} {
			c18Check(rc, tg, cd, mm, fmt.Sprintf("crafted input %d", i))
			rc.Fault("crafted-type-or-name-confusion")
		}
	}

	// control: every valid input decodes
	for _, in := range inputs {
		if in.name == "v2-payload-under-v1-header" {
			continue
		}
		for _, tg := range in.target {
			res := c18Decode(tg, in.data, mm, nil)
			if res.panic != "" || !res.ok {
				if in.name == "v1" {
					rc.Probe("v1-downgrade-rejected")
					continue
				}
				rc.FailCase(caseTape(tg, in.data), "valid-input-rejected", "valid-rejected:"+c18TargetName(tg),
					"valid %s encoding rejected by %s: panic=%q err=%v", in.name, c18TargetName(tg), res.panic, res.err)
			}
		}
	}

	bulk := rc.T.Fork()
	if enumerate {
		for _, in := range inputs {
			d := in.data
			for _, tg := range in.target {
				// torn write / lost tail: every truncation
				for t := 0; t < len(d); t++ {
					c18Check(rc, tg, d[:t], mm, fmt.Sprintf("%s truncated at %d", in.name, t))
					rc.Fault("truncation")
				}
				// bit rot: every offset × 5 values
				for off := 0; off < len(d); off++ {
					orig := d[off]
					vals := [5]byte{^orig, orig + 1, 0x00, 0xFF, orig ^ (1 << (bulk.Rand() % 8))}
					for vi, v := range vals {
						if v == orig {
							continue
						}
						c := append([]byte(nil), d...)
						c[off] = v
						c18Check(rc, tg, c, mm, fmt.Sprintf("%s byte %d: %#02x -> %#02x", in.name, off, orig, v))
						if vi == 4 {
							rc.Fault("bit-flip")
						} else {
							rc.Fault("byte-rot")
						}
					}
				}
			}
		}
		// every length field × extreme well-formed lengths
		for _, in := range inputs {
			d := in.data
			for _, off := range c18SizedTagOffsets(d) {
				for _, pat := range c18LengthPatterns {
					for _, tg := range in.target {
						c := append([]byte(nil), d[:off+1]...)
						c = append(c, pat...)
						if rest := off + 1 + len(pat); rest < len(d) {
							c = append(c, d[rest:]...)
						}
						c18Check(rc, tg, c, mm, fmt.Sprintf("%s length field at %d := %x", in.name, off+1, pat))
						rc.Fault("extreme-length-field")
					}
				}
			}
		}
		rc.Sig = fmt.Sprintf("enum prog=%d len=%d", prog, len(v2))
		rc.Sample = map[string]any{"kind": "enumeration", "program": src, "v2_len": len(v2), "inputs": len(inputs), "cases": rc.SubEvals}
		rc.Logf("prog=%d len=%d cases=%d", prog, len(v2), rc.SubEvals)
		return
	}

	// sampled multi-faults and reader faults
	n := 300
	for i := 0; i < n; i++ {
		in := inputs[int(bulk.Rand()%uint64(len(inputs)))]
		tg := in.target[int(bulk.Rand()%uint64(len(in.target)))]
		d := append([]byte(nil), in.data...)
		L := len(d)
		r := func(m int) int {
			if m <= 0 {
				return 0
			}
			return int(bulk.Rand() % uint64(m))
		}
		kind := r(12)
		switch kind {
		case 8: // lost write in the middle: a region disappears, the rest moves up
			st, sz := r(L), 1+r(24)
			if st+sz > L {
				sz = L - st
			}
			d = append(d[:st], d[st+sz:]...)
			rc.Fault("region-lost")
		case 9: // duplicated write: a region appears twice
			st, sz := r(L), 1+r(24)
			if st+sz > L {
				sz = L - st
			}
			dup := append([]byte(nil), d[st:st+sz]...)
			d = append(d[:st+sz], append(dup, d[st+sz:]...)...)
			rc.Fault("region-duplicated")
		case 10: // a length/varint field replaced by an extreme encoding
			pats := c18LengthPatterns
			pat := pats[r(len(pats))]
			st := r(L)
			if tags := c18SizedTagOffsets(d); len(tags) > 0 && r(4) > 0 {
				st = tags[r(len(tags))] + 1 // right after a type tag: where a length field sits
				if st >= L {
					st = L - 1
				}
			}
			if r(2) == 0 { // overwrite
				copy(d[st:], pat)
			} else { // insert
				d = append(d[:st], append(append([]byte(nil), pat...), d[st:]...)...)
			}
			rc.Fault("extreme-varint")
		case 11: // type tag swapped for another valid tag
			st := r(L)
			d[st] = byte(r(16))
			if r(4) == 0 {
				d[st] = 255
			}
			rc.Fault("tag-swap")
		case 0: // double corruption
			d[r(L)] = byte(bulk.Rand())
			d[r(L)] = byte(bulk.Rand())
			rc.Fault("double-corruption")
		case 1: // lost sector: zero-filled aligned range
			sz := []int{8, 16, 64}[r(3)]
			st := r(L) / sz * sz
			for j := st; j < st+sz && j < L; j++ {
				d[j] = 0
			}
			rc.Fault("lost-sector")
		case 2: // misdirected write: a range copied over another
			sz := 1 + r(32)
			a, b := r(L), r(L)
			for j := 0; j < sz && a+j < L && b+j < L; j++ {
				d[b+j] = in.data[a+j]
			}
			rc.Fault("misdirected-write")
		case 3: // garbage tail
			for j, m := 0, 1+r(40); j < m; j++ {
				d = append(d, byte(bulk.Rand()))
			}
			rc.Fault("garbage-tail")
		case 4: // truncation + corruption
			d = d[:r(L)]
			if len(d) > 0 {
				d[r(len(d))] ^= byte(1 + r(255))
			}
			rc.Fault("truncation+corruption")
		case 5: // 0xFF run (length fields become huge)
			st, sz := r(L), 1+r(9)
			for j := st; j < st+sz && j < L; j++ {
				d[j] = 0xFF
			}
			rc.Fault("ff-run")
		case 6, 7: // reader faults on valid or corrupted data (bytecode reader target only)
			if in.name != "v2" {
				continue
			}
			if kind == 7 {
				d[r(L)] ^= byte(1 + r(255))
			}
			c18ChunkOracle(rc, d, mm, 1+r(17))
			rc.Fault("short-reads")
			k := r(L + 1)
			c18ReaderErrOracle(rc, d, k, 1+r(64), mm)
			rc.Fault("reader-error")
			continue
		}
		c18Check(rc, tg, d, mm, fmt.Sprintf("%s multi-fault kind %d", in.name, kind))
	}
	rc.Sig = fmt.Sprintf("sampled prog=%d idx=%d", prog, rc.Index)
	rc.Sample = map[string]any{"kind": "sampled multi-fault batch", "program_index": prog, "cases": rc.SubEvals}
	rc.Logf("sampled prog=%d cases=%d", prog, rc.SubEvals)
	_ = nSampled
}

func c18Sizes(tier string) (programs, sampledRuns int) {
	if tier == "thorough" {
		return 1400, 40000
	}
	return 12, 160
}

func init() {
	sim.Register(&sim.Engine{
		ID:    "C18",
		Level: "fault_enumeration",
		Rule: "programs = fixed corpus + tape-generated scripts; per program the valid encodings are: v2 bytecode, the v2 payload under a v1 header, a down-converted v1 program, " +
			"the constants array, the main function and a gob/SyncMap object array. Enumeration runs apply EVERY truncation, EVERY offset × {^b, b+1, 0x00, 0xFF, one random bit} and EVERY byte that looks like a sized-type tag × 16 extreme length fields to each encoding, plus crafted type and name confusions (every top-level field and the file-name slot × zero-valued objects of every gob-registered type, a nil interface and scalars; builtin-module names replaced by names of source modules) and feed it to every applicable target " +
			"(DecodeBytecodeFrom, Bytecode.UnmarshalBinary, DecodeObject); sampled runs apply double corruption, lost sector, misdirected write, garbage tail, truncation+corruption, 0xFF runs, lost and duplicated regions, extreme varint encodings, tag swaps, short reads and reader errors. " +
			"evaluations = decode calls on faulted inputs; a run is non-trivial when it executed its whole fault list; distinct = distinct (program, batch) pairs.",
		Assumptions: []string{
			"allocation 'out of proportion' is read as more than 16 MiB + 256 × input length of heap allocated by one decode call (runtime/metrics /gc/heap/allocs:bytes delta)",
			"a decode that succeeds on corrupted bytes is legal; its result is not executed",
			"fatal out-of-memory deaths are caught by running workers under ulimit -v and attributing the crash to the input in progress",
		},
		Real:      []string{"encoder.EncodeBytecodeTo", "encoder.DecodeBytecodeFrom", "encoder.(*Bytecode).UnmarshalBinary", "encoder.DecodeObject", "v1 converter", "fixObjects", "compiler (to build programs)"},
		Simulated: []string{"storage medium (bit rot, torn/lost/misdirected writes, lost sectors, garbage tails)", "reader (short reads, read errors)"},
		Runs: func(tier string) int {
			p, s := c18Sizes(tier)
			return p + s
		},
		Run:          c18Run,
		Crashy:       true,
		RunTimeout:   20 * time.Minute, // an enumeration run is thousands of decode calls
		ShrinkBudget: 3000,
		Exhaustive:   func(string) bool { return false },
		WallCap: func(tier string) float64 {
			if tier == "thorough" {
				return 1500
			}
			return 100
		},
		Extra: func(tier string) map[string]any {
			p, s := c18Sizes(tier)
			return map[string]any{"programs_fully_enumerated": p, "sampled_multi_fault_runs": s,
				"exhaustive_note": "the single-fault space (all truncations, all offsets × 5 values) is enumerated completely for each listed program's encodings; the space of all byte strings is sampled"}
		},
	})
}
