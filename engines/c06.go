package engines

import (
	"fmt"
	"runtime"
	"strings"
	"time"

	"github.com/ozanh/ugo"
	"verif/sim"
)

// C06 — with recovery enabled, running a script never panics the host.
//
// Simulator-owned: where a Go panic strikes (which dynamic host call or host
// object method) and the VM state at that instant (inside try / catch /
// finally, in a callee at depth d, in a (nested) child VM, with the frame
// array or the value stack driven close to their limits).

type c06Probe struct {
	ctx   int
	site  int
	depth int // context parameter (recursion depth, literal width, ...)
	arg   int // site parameter (operand pair and operator of the vm-operands site)
	fault sim.FaultKind
}

const (
	c06CtxPlain = iota
	c06CtxCallee
	c06CtxChild
	c06CtxChildOfChild
	c06CtxFinallyPendingReturn
	c06CtxCatch
	c06CtxFrameEdge
	c06CtxStackEdge
	c06CtxWideCalls
	c06CtxStringsMap
	c06CtxOverflowCaughtCatch
	c06CtxOverflowCaughtFinally
	c06CtxChildInnerTry
	c06CtxValueStackRecursion
	c06CtxFinallyAfterOkTry
	c06CtxReusedHandle
	c06NumCtx
)

var c06CtxNames = []string{"plain", "callee", "child-vm", "child-of-child", "finally-pending-return", "catch", "frame-edge", "stack-edge", "wide-calls", "strings.Map-callback", "frame-overflow-caught-in-frame", "frame-overflow-through-finally", "child-vm-inner-try", "value-stack-recursion", "finally-after-completed-try", "invoker-handle-reused"}

// sites: expression sites can sit inside wide literals; statement sites cannot
var c06Sites = []struct {
	name   string
	method string // host object method, "" for op()
	expr   bool
	text   string // %d = probe number
}{
	{"op", "", true, "op(%d)"},
	{"binop", "binop", true, "(o%d + 1)"},
	{"indexget", "indexget", true, "o%d[1]"},
	{"call", "call", true, "o%d(1)"},
	{"callname", "callname", true, "o%d.method(1)"},
	{"string", "string", true, "string(o%d)"},
	{"equal", "equal", true, "(o%d == 1)"},
	{"isfalsy", "isfalsy", true, "(!o%d)"},
	{"indexset", "indexset", false, "o%d.x = 1"},
	{"iterate", "iterate", false, "for k, v in o%d { log(k, v) }"},
	{"next", "next", false, "for k, v in o%d { log(k, v) }"},
	{"value", "value", false, "for k, v in o%d { log(k, v) }"},
	{"key", "key", false, "for k, v in o%d { log(k, v) }"},
	{"syncmap-string", "string", true, "string(sm%d)"},
	{"syncmap-equal", "equal", true, "(sm%[1]d == sm%[1]db)"},
	{"json-marshal-cycle", "-", true, "len(import(\"json\").Marshal(cy%d))"}, // a cyclic value handed to a Go encoder: an error, never a runaway recursion
	{"vm-rem-zero", "-", true, "(7 %% (op(%d) * 0))"},                        // a Go panic raised by a VM operator (integer remainder by zero)
	{"closure-to-text", "-", true, "len(string(rc%[1]d) + sprintf(\"%%v\", [rc%[1]d]))"}, // a recursive closure (it captures the variable that holds it) turned into text
	{"vm-operands", "-", true, ""},                                           // a binary operator on a drawn pair of operand types (text: c06OperandExpr)
}

// operands of every value kind and the binary operators: whatever the pair, the VM answers with a value or an error
var c06Operands = []string{"7", "7u", "0.5", "'a'", "\"s\"", "bytes(\"b\")", "true", "undefined", "[1]", "{a: 1}", "error(\"e\")", "0", "-3", "2.0"}
var c06Operators = []string{"+", "-", "*", "/", "%", "&", "|", "^", "&^", "<<", ">>", "<", "<=", ">", ">=", "==", "!="}

// c06OperandExpr renders operand pair/operator number arg for probe k; the operands live in variables so that the
// operator runs in the VM and not in the optimizer.
func c06OperandExpr(k, arg int) (decl, expr string) {
	l := c06Operands[arg%len(c06Operands)]
	r := c06Operands[arg/len(c06Operands)%len(c06Operands)]
	op := c06Operators[arg/len(c06Operands)/len(c06Operands)%len(c06Operators)]
	return fmt.Sprintf("xl%d := %s\nxr%d := %s\n", k, l, k, r), fmt.Sprintf("(xl%d %s xr%d)", k, op, k)
}

func c06Script(probes []c06Probe) string {
	var sb strings.Builder
	sb.WriteString(sim.PreludeObj + "global calleach\n")
	for k, p := range probes {
		site := c06Sites[p.site]
		text := fmt.Sprintf(site.text, k)
		if site.name == "vm-operands" {
			var decl string
			decl, text = c06OperandExpr(k, p.arg)
			sb.WriteString(decl)
		}
		stmt := text
		if site.expr {
			stmt = "log(" + text + ")"
		}
		fmt.Fprintf(&sb, "o%[1]d := obj(%[1]d)\nsm%[1]d := syncmap(%[1]d)\nsm%[1]db := syncmap(%[1]d)\ncy%[1]d := {a: {}}\ncy%[1]d.b = cy%[1]d\nvar rc%[1]d\nrc%[1]d = func(n) { return n == 0 ? 0 : rc%[1]d(n - 1) }\n", k)
		body := ""
		switch p.ctx {
		case c06CtxPlain:
			body = "\t" + stmt + "\n"
		case c06CtxCallee:
			body = fmt.Sprintf("\tvar d%[1]d\n\td%[1]d = func(n) {\n\t\tif n == 0 {\n\t\t\t%[2]s\n\t\t\treturn 0\n\t\t}\n\t\treturn d%[1]d(n - 1) + 1\n\t}\n\tlog(\"r\", d%[1]d(%[3]d))\n", k, stmt, p.depth)
		case c06CtxChild:
			body = fmt.Sprintf("\tf%[1]d := func() {\n\t\t%[2]s\n\t\treturn 0\n\t}\n\tlog(\"r\", call(f%[1]d))\n", k, stmt)
		case c06CtxChildOfChild:
			body = fmt.Sprintf("\tf%[1]d := func() {\n\t\t%[2]s\n\t\treturn 0\n\t}\n\tg%[1]d := func() { return call(f%[1]d) }\n\tlog(\"r\", call(g%[1]d))\n", k, stmt)
		case c06CtxFinallyPendingReturn:
			body = fmt.Sprintf("\tf%[1]d := func() {\n\t\ttry {\n\t\t\treturn 1\n\t\t} finally {\n\t\t\t%[2]s\n\t\t}\n\t}\n\tlog(\"r\", f%[1]d())\n", k, stmt)
		case c06CtxCatch:
			body = fmt.Sprintf("\ttry {\n\t\tthrow \"x%[1]d\"\n\t} catch {\n\t\t%[2]s\n\t}\n", k, stmt)
		case c06CtxFrameEdge:
			body = fmt.Sprintf("\tvar a%[1]d\n\tvar b%[1]d\n\tn%[1]d := 0\n\ta%[1]d = func() {\n\t\tn%[1]d++\n\t\tif n%[1]d >= %[3]d {\n\t\t\t%[2]s\n\t\t\treturn 0\n\t\t}\n\t\treturn b%[1]d() + 1\n\t}\n\tb%[1]d = func() {\n\t\tn%[1]d++\n\t\tif n%[1]d >= %[3]d {\n\t\t\t%[2]s\n\t\t\treturn 0\n\t\t}\n\t\treturn a%[1]d() + 1\n\t}\n\tlog(\"r\", a%[1]d())\n", k, stmt, p.depth)
		case c06CtxStackEdge:
			if !site.expr {
				text = fmt.Sprintf("op(%d)", k)
			}
			var lit strings.Builder
			for i := 0; i < p.depth; i++ {
				lit.WriteString("1, ")
			}
			body = fmt.Sprintf("\tw%d := [%s%s]\n\tlog(len(w%[1]d))\n", k, lit.String(), text)
		case c06CtxWideCalls:
			if !site.expr {
				text = fmt.Sprintf("op(%d)", k)
			}
			args := strings.Repeat("1, ", 240)
			inner := text
			for i := 0; i < p.depth; i++ {
				inner = "h" + fmt.Sprint(k) + "(" + args + inner + ")"
			}
			body = fmt.Sprintf("\th%d := func(...a) { return len(a) }\n\tlog(%s)\n", k, inner)
		case c06CtxOverflowCaughtCatch:
			// unbounded recursion whose every frame catches: the frame limit strikes in the deepest frame
			body = fmt.Sprintf("\tvar r%[1]d\n\tr%[1]d = func() {\n\t\ttry {\n\t\t\treturn r%[1]d() + 1\n\t\t} catch {\n\t\t\treturn 0\n\t\t}\n\t}\n\tlog(\"r\", r%[1]d() > 0)\n\t%[2]s\n", k, stmt)
		case c06CtxOverflowCaughtFinally:
			body = fmt.Sprintf("\tn%[1]d := 0\n\tvar r%[1]d\n\tr%[1]d = func() {\n\t\ttry {\n\t\t\treturn r%[1]d() + 1\n\t\t} finally {\n\t\t\tn%[1]d++\n\t\t}\n\t}\n\ttry {\n\t\tlog(\"r\", r%[1]d())\n\t} catch {\n\t\tlog(\"of\", n%[1]d > 0)\n\t}\n\t%[2]s\n", k, stmt)
		case c06CtxChildInnerTry:
			// the handler that must receive the fault sits inside the function that runs on the child VM
			body = fmt.Sprintf("\tf%[1]d := func() {\n\t\ttry {\n\t\t\t%[2]s\n\t\t\tlog(\"ia%[1]d\")\n\t\t} catch {\n\t\t\tlog(\"ic%[1]d\")\n\t\t} finally {\n\t\t\tlog(\"if%[1]d\")\n\t\t}\n\t\treturn 0\n\t}\n\tlog(\"r\", call(f%[1]d))\n", k, stmt)
		case c06CtxValueStackRecursion:
			// the value stack is exhausted (several slots per call) before the frame limit, under an active handler
			body = fmt.Sprintf("\tvar v%[1]d\n\tv%[1]d = func(n, a, b, c) { return 1 + v%[1]d(n + 1, a, b, c) }\n\ttry {\n\t\tlog(\"r\", v%[1]d(0, 1, 2, 3))\n\t} catch {\n\t\tlog(\"vo%[1]d\")\n\t}\n\t%[2]s\n", k, stmt)
		case c06CtxFinallyAfterOkTry:
			// the finally clause of a statement whose try body completed: its own catch clause does not enclose it
			body = fmt.Sprintf("\ttry {\n\t\tlog(\"t%[1]d\")\n\t} catch {\n\t\tlog(\"wrong%[1]d\")\n\t} finally {\n\t\tlog(\"fin%[1]d\")\n\t\t%[2]s\n\t}\n", k, stmt)
		case c06CtxReusedHandle:
			// one Invoker handle (pooled or not) used for a batch whose first item strikes the fault; the host tolerates
			// failing items, and the later items must run as if nothing had happened
			body = fmt.Sprintf("\tf%[1]d := func(i) {\n\t\tif i == 0 {\n\t\t\t%[2]s\n\t\t}\n\t\ttry {\n\t\t\tif i == 2 { throw \"own\" }\n\t\t} catch {\n\t\t\treturn i * 100\n\t\t}\n\t\treturn i * 10\n\t}\n\tlog(\"rh%[1]d\", calleach(f%[1]d, 0, 1, 2, 3))\n", k, stmt)
		case c06CtxStringsMap:
			// any of the stdlib functions that call a script function back from Go
			switch p.depth % 5 {
			case 0:
				body = fmt.Sprintf("\tlog(import(\"strings\").Map(func(c) {\n\t\t%s\n\t\treturn c\n\t}, \"ab\"))\n", stmt)
			case 1:
				body = fmt.Sprintf("\tlog(import(\"strings\").TrimFunc(\"ab\", func(c) {\n\t\t%s\n\t\treturn false\n\t}))\n", stmt)
			case 2:
				body = fmt.Sprintf("\tlog(import(\"strings\").IndexFunc(\"ab\", func(c) {\n\t\t%s\n\t\treturn false\n\t}))\n", stmt)
			case 3:
				body = fmt.Sprintf("\tlog(import(\"strings\").FieldsFunc(\"ab\", func(c) {\n\t\t%s\n\t\treturn false\n\t}))\n", stmt)
			default:
				body = fmt.Sprintf("\tlog(import(\"strings\").TrimLeftFunc(\"ab\", func(c) {\n\t\t%s\n\t\treturn true\n\t}))\n", stmt)
			}
		}
		fmt.Fprintf(&sb, "try {\n\tlog(\"b%[1]d\")\n%[2]s\tlog(\"a%[1]d\")\n} catch e%[1]d {\n\tlog(\"c%[1]d\", isError(e%[1]d))\n} finally {\n\tlog(\"f%[1]d\")\n}\n", k, body)
	}
	for k := range probes {
		// a later write to the same sync map (blocks forever if a recovered panic left its lock held)
		fmt.Fprintf(&sb, "sm%[1]d.w = %[1]d\nsm%[1]db.w = %[1]d\n", k)
	}
	sb.WriteString("return \"end\"\n")
	return sb.String()
}

// c06Storm: N panics recovered in the main function and N in a callee; depth() is the Go stack depth under a host call.
const c06Storm = sim.Prelude + `global (boom, depth, N)
k := 0
d0 := depth()
for i := 0; i < N; i++ { try { boom() } catch e { k++ } }
d1 := depth()
f := func() {
	c0 := depth()
	for i := 0; i < N; i++ { try { boom() } catch e { k++ } }
	return depth() - c0
}
r := f()
return [k, d1 - d0, r]
`

const c06Fixed = sim.Prelude + "t := 0\nfor i := 0; i < 10; i++ { t += i }\nf := func(a, ...b) { return a + len(b) }\ntry { throw \"z\" } catch e { t += 1 } finally { t += 2 }\nreturn [t, f(1, 2, 3), call(f, 5)]\n"
const c06FixedWant = "value=[i:48,i:3,i:5] hist=[]"

// an uncaught error in the main function: a handler left behind by the faulted run would intercept it
const c06Fixed2 = sim.Prelude + "x := 1\nvar f\nf = func(n) { if n == 0 { return [][3] }; return f(n - 1) + 1 }\ny := f(2)\nreturn [x, y]\n"
const c06Fixed2Want = "error=error(IndexOutOfBoundsError:\"3\") hist=[]"

func c06Run(rc *sim.RunCtx) {
	t := rc.T
	panicKinds := []sim.FaultKind{sim.FPanicStr, sim.FPanicErr, sim.FPanicRT, sim.FPanicObj, sim.FPanicNilErr}
	n := 1 + t.Draw(4)
	probes := make([]c06Probe, n)
	spec := &sim.WorldSpec{Name: "w"}
	errorCapableOnly := true
	nFaults := 0
	for k := range probes {
		p := &probes[k]
		p.ctx = t.Draw(c06NumCtx)
		p.site = t.Draw(len(c06Sites))
		if c06Sites[p.site].name == "vm-operands" {
			p.arg = t.Draw(len(c06Operands) * len(c06Operands) * len(c06Operators))
		}
		switch p.ctx {
		case c06CtxCallee:
			p.depth = []int{1, 5, 50, 300}[t.Draw(4)]
		case c06CtxFrameEdge:
			p.depth = 1000 + t.Draw(30)
		case c06CtxStackEdge:
			p.depth = 1990 + t.Draw(70)
		case c06CtxWideCalls:
			p.depth = 1 + t.Draw(8)
		case c06CtxStringsMap:
			p.depth = t.Draw(5)
		}
		// fault placement: at most 2 faults per run, mostly panics
		if nFaults < 2 && t.Bool(3, 4) {
			nFaults++
			if t.Bool(1, 6) {
				p.fault = []sim.FaultKind{sim.FGoErr, sim.FUgoErr}[t.Draw(2)]
			} else {
				p.fault = panicKinds[t.Draw(len(panicKinds))]
			}
			site := c06Sites[p.site]
			useOp := site.method == "" || (!site.expr && (p.ctx == c06CtxStackEdge || p.ctx == c06CtxWideCalls))
			switch {
			case site.method == "-":
				// the VM operator panics by itself; no host fault needed
				p.fault = sim.FNone
				nFaults--
			case useOp:
				spec.Faults = append(spec.Faults, sim.FaultAt{ID: k, Occ: 0, Kind: p.fault})
			default:
				if !sim.ObjMethodReturnsError(site.method) {
					if !p.fault.IsPanic() {
						p.fault = sim.FPanicStr // these methods have no error result
					}
					errorCapableOnly = false
				}
				occ := 0
				if site.method == "next" || site.method == "value" || site.method == "key" {
					occ = t.Draw(2)
				}
				spec.ObjFaults = append(spec.ObjFaults, sim.ObjFault{Obj: k, Method: site.method, Occ: occ, Kind: p.fault})
			}
		}
	}
	for i := 0; i < 16; i++ {
		spec.Pooled = append(spec.Pooled, t.Bool(1, 2))
		spec.Repeat = append(spec.Repeat, 0)
	}
	// in an eighth of the runs the host calls Abort on the VM immediately before op() fails
	abortMode := t.Bool(1, 8)
	src := c06Script(probes)
	noOpt := t.Bool(1, 2)
	mm := newModuleMap(nil)
	bc, err := compile(src, mm, noOpt, 0)
	if err != nil {
		rc.Discard = "compile-error"
		rc.Logf("compile: %v", err)
		return
	}
	fixedBC := mustCompile(c06Fixed, mm, false)
	fixed2BC := mustCompile(c06Fixed2, mm, false)

	pool := &sim.SimPool{T: t}
	restorePool := pool.Install()
	defer restorePool()

	type result struct {
		out      sim.Outcome
		escaped  string
		firedOps []sim.FaultAt
		firedObj []sim.ObjFault
		steps    int64
	}
	hung := false
	run := func(vm *ugo.VM, b *ugo.Bytecode, ws *sim.WorldSpec, noFaults bool, count bool) (res result) {
		if hung {
			return result{out: sim.Outcome{Kind: "hang", Value: "not run: an earlier run of this case hangs"}}
		}
		w := sim.NewWorld(ws, nil)
		if count {
			w.RC = rc
		}
		w.NoFaults = noFaults
		w.AbortOnFault = abortMode && !noFaults
		sc := &sim.StepCounter{Cap: 400000}
		restore := sc.Install()
		defer restore()
		defer func() {
			if r := recover(); r != nil {
				res.escaped = "panic escaped from VM.Run: " + msgClass(r) + " at " + panicSite("github.com/ozanh/ugo")
				res.out = sim.Outcome{Kind: "escaped-panic", Value: msgClass(r), Hist: w.Hist}
			}
			res.firedOps, res.firedObj, res.steps = w.Fired, w.FiredObj, sc.Steps
		}()
		var ret ugo.Object
		var err error
		var inner any
		if !sim.Watchdog(20*time.Second, func() {
			defer func() { inner = recover() }()
			ret, err = vm.Run(w.Globals)
		}) {
			hung = true
			res.out = sim.Outcome{Kind: "hang", Value: "Run neither returned nor can be aborted", Hist: append([]string(nil), w.Hist...)}
			return
		}
		if inner != nil {
			panic(inner)
		}
		res.out = sim.MakeOutcome(ret, err, w.Hist)
		return
	}

	// fault-free reference on a fresh VM (also the expected outcome of the follow-up)
	clean := run(ugo.NewVM(bc).SetRecover(true), bc, spec, true, false)
	// the faulted run
	vm := ugo.NewVM(bc).SetRecover(true)
	faulted := run(vm, bc, spec, false, true)
	rc.Steps = faulted.steps
	// the error-returning twin
	twinSpec := *spec
	twinSpec.DowngradePanics = true
	twin := run(ugo.NewVM(bc).SetRecover(true), bc, &twinSpec, false, false)

	fired := len(faulted.firedOps) + len(faulted.firedObj)
	var ctxs []string
	for k, p := range probes {
		ctxs = append(ctxs, fmt.Sprintf("%s/%s", c06CtxNames[p.ctx], c06Sites[p.site].name))
		if p.ctx == c06CtxStackEdge && p.depth >= 2030 {
			rc.Probe("site-with-sp>=2030")
		}
		if p.ctx == c06CtxFrameEdge && p.depth >= 1020 {
			rc.Probe("site-at-frame>=1020")
		}
		_ = k
	}
	for _, f := range faulted.firedOps {
		if f.Kind.IsPanic() {
			rc.Probe("panic-in:" + c06CtxNames[probes[f.ID].ctx])
		}
	}
	for _, f := range faulted.firedObj {
		rc.Probe("panic-in:" + c06CtxNames[probes[f.Obj].ctx])
		rc.Probe("panic-at-method:" + f.Method)
	}
	rc.Logf("probes=%v fired=%d faulted=%s", ctxs, fired, faulted.out)
	if fired > 0 || strings.Contains(src, "%") {
		rc.Sig = strings.Join(ctxs, ",") + fmt.Sprintf("|%v|%v", spec.Faults, spec.ObjFaults)
		if rc.Index%61 == 0 {
			s := src
			if len(s) > 3000 {
				s = s[:3000] + "…"
			}
			rc.Sample = map[string]any{"probes": ctxs, "faults": spec.Faults, "object_faults": spec.ObjFaults, "script": s, "outcome": faulted.out.String()}
		}
	}
	decoded := func() map[string]any {
		s := src
		if len(s) > 6000 {
			s = s[:6000] + "…"
		}
		return map[string]any{"probes": ctxs, "faults": spec.Faults, "object_faults": spec.ObjFaults, "script": s, "optimizer_off": noOpt,
			"faulted": faulted.out.String(), "twin": twin.out.String(), "clean": clean.out.String()}
	}
	firstCtx := "none"
	if len(faulted.firedOps) > 0 {
		firstCtx = c06CtxNames[probes[faulted.firedOps[0].ID].ctx] + "/" + c06Sites[probes[faulted.firedOps[0].ID].site].name
	} else if len(faulted.firedObj) > 0 {
		firstCtx = c06CtxNames[probes[faulted.firedObj[0].Obj].ctx] + "/" + faulted.firedObj[0].Method
	}

	// a run that blocks forever returns neither a value nor an error
	if hung {
		rc.Fatal = true
		rc.Decoded = decoded()
		rc.Fail("run-hangs", "hang:"+firstCtx, "a run of this case blocked for more than 20 s without executing instructions (clean=%s faulted=%s twin=%s)\nscript:\n%s", clean.out.Kind, faulted.out.Kind, twin.out.Kind, truncateStr(src, 3000))
		return
	}
	// oracle 1: nothing escapes
	if faulted.escaped != "" {
		rc.Decoded = decoded()
		rc.Fail("panic-escaped", "escaped:"+firstCtx, "%s\nscript:\n%s", faulted.escaped, truncateStr(src, 3000))
		return
	}
	if clean.escaped != "" || twin.escaped != "" {
		rc.Decoded = decoded()
		rc.Fail("panic-escaped", "escaped-without-injected-panic", "clean=%q twin=%q\nscript:\n%s", clean.escaped, twin.escaped, truncateStr(src, 3000))
		return
	}
	// oracle 1b: an Abort issued while the host function was about to fail is not lost in the recovery of its panic
	if abortMode && len(faulted.firedOps) > 0 {
		rc.Fault("abort-then-" + faulted.firedOps[0].Kind.String())
		for name, r := range map[string]result{"panicking": faulted, "error-returning": twin} {
			// (the VM-aborted error, or the failure itself where the VM gives a panic to no handler: never a value)
			if r.out.Kind == "value" {
				rc.Decoded = decoded()
				rc.Fail("abort-lost-in-recovery", "abort-lost:"+firstCtx, "the host called Abort and then failed (%s, %s run); Run returned no error but %s\nscript:\n%s", faulted.firedOps[0].Kind, name, r.out, truncateStr(src, 3000))
				return
			}
		}
	}
	// oracle 2b (structural): a run that returns a value delivered every fired fault to its probe's catch, once
	if faulted.out.Kind == "value" {
		count := func(marker string) int {
			c := 0
			for _, h := range faulted.out.Hist {
				if h == "s:"+fmt.Sprintf("%q", marker) || strings.HasPrefix(h, "s:"+fmt.Sprintf("%q", marker)+" ") {
					c++
				}
			}
			return c
		}
		check := func(k int) bool {
			if probes[k].ctx == c06CtxReusedHandle {
				// swallowed by the host as one failed item of the batch: the statement after the batch runs, the probe's
				// catch does not
				if !(count(fmt.Sprintf("c%d", k)) == 0 && count(fmt.Sprintf("f%d", k)) == 1 && count(fmt.Sprintf("a%d", k)) == 1 && count(fmt.Sprintf("b%d", k)) == 1) {
					return false
				}
				// the struck item failed, every later item of the batch ran normally on the same handle
				want := fmt.Sprintf("s:%q [s:\"err\",i:10,i:200,i:30]", fmt.Sprintf("rh%d", k))
				for _, h := range faulted.out.Hist {
					if strings.HasPrefix(h, fmt.Sprintf("s:%q ", fmt.Sprintf("rh%d", k))) {
						return h == want
					}
				}
				return false
			}
			if probes[k].ctx == c06CtxFinallyAfterOkTry && count(fmt.Sprintf("wrong%d", k)) != 0 {
				return false
			}
			if probes[k].ctx == c06CtxFinallyAfterOkTry && count(fmt.Sprintf("fin%d", k)) != 1 {
				return false
			}
			if probes[k].ctx == c06CtxChildInnerTry {
				// delivered to the try statement inside the child VM's function: its catch and finally once, nothing after
				// the site; the probe's own catch is not entered
				return count(fmt.Sprintf("ic%d", k)) == 1 && count(fmt.Sprintf("if%d", k)) == 1 && count(fmt.Sprintf("ia%d", k)) == 0 &&
					count(fmt.Sprintf("c%d", k)) == 0 && count(fmt.Sprintf("f%d", k)) == 1 && count(fmt.Sprintf("a%d", k)) == 1
			}
			return count(fmt.Sprintf("c%d", k)) == 1 && count(fmt.Sprintf("f%d", k)) == 1 && count(fmt.Sprintf("a%d", k)) == 0 && count(fmt.Sprintf("b%d", k)) == 1
		}
		for _, f := range faulted.firedOps {
			if !check(f.ID) {
				rc.Decoded = decoded()
				rc.Fail("fault-not-delivered", "not-delivered:"+c06CtxNames[probes[f.ID].ctx]+"/"+c06Sites[probes[f.ID].site].name,
					"Run returned a value although the %s of probe %d fired; its catch/finally markers are not exactly once (or the statement after the site ran)\n history: %s\nscript:\n%s", f.Kind, f.ID, faulted.out, truncateStr(src, 3000))
				return
			}
		}
		for _, f := range faulted.firedObj {
			if !check(f.Obj) {
				rc.Decoded = decoded()
				rc.Fail("fault-not-delivered", "not-delivered:"+c06CtxNames[probes[f.Obj].ctx]+"/"+f.Method,
					"Run returned a value although %s of obj%d.%s fired; its catch/finally markers are not exactly once (or the statement after the site ran)\n history: %s\nscript:\n%s", f.Kind, f.Obj, f.Method, faulted.out, truncateStr(src, 3000))
				return
			}
		}
		// oracle 2a (differential): delivered exactly like the same error returned by the host
		if errorCapableOnly && !faulted.out.Equal(twin.out) {
			rc.Decoded = decoded()
			rc.Fail("panic-delivered-differently", "differs-from-error-twin:"+firstCtx,
				"Run returned a value, but not what it returns when the host returns the same text as an error instead of panicking\n panicking: %s\n returning: %s\nscript:\n%s", faulted.out, twin.out, truncateStr(src, 3000))
			return
		}
	}
	// oracle 3: the VM runs further scripts correctly
	// straight after the faulted run (no Clear), and again after the other follow-ups
	for round, bcs := range []struct {
		bc   *ugo.Bytecode
		want string
	}{{fixed2BC, c06Fixed2Want}, {fixedBC, c06FixedWant}, {fixed2BC, c06Fixed2Want}} {
		vm.SetBytecode(bcs.bc)
		fx := run(vm, bcs.bc, &sim.WorldSpec{Name: "w"}, true, false)
		if hung {
			rc.Fatal = true
			rc.Decoded = decoded()
			rc.Fail("run-hangs", "followup-hangs:"+firstCtx, "after the faulted run the VM did not finish fixed script %d within 20 s (no instruction executes: the step cap cannot end it)\nscript of the faulted run:\n%s", round, truncateStr(src, 3000))
			return
		}
		if fx.out.String() != bcs.want {
			rc.Decoded = decoded()
			rc.Fail("vm-unusable-after-panic", "fixed-script-differs:"+firstCtx, "after the faulted run the VM ran fixed script %d to %s %s, want %s", round, fx.out, fx.escaped, bcs.want)
			return
		}
	}
	// oracle 4: recovering from a panic costs nothing that adds up - the Go stack under a host call is as deep after
	// N recovered panics as before
	if t.Bool(1, 4) {
		n := 20 + t.Draw(600)
		kind := panicKinds[t.Draw(len(panicKinds))]
		depthOf := func() int {
			var pcs [1 << 15]uintptr
			return runtime.Callers(0, pcs[:])
		}
		w := sim.NewWorld(&sim.WorldSpec{Name: "storm"}, nil)
		w.Globals["N"] = ugo.Int(n)
		w.Globals["depth"] = &ugo.Function{Name: "depth", Value: func(...ugo.Object) (ugo.Object, error) { return ugo.Int(depthOf()), nil }}
		w.Globals["boom"] = &ugo.Function{Name: "boom", Value: func(...ugo.Object) (ugo.Object, error) {
			return nil, w.Raise(kind, 0, 0)
		}}
		svm := ugo.NewVM(mustCompile(c06Storm, mm, false)).SetRecover(true)
		var ret ugo.Object
		var serr error
		var esc any
		sc := &sim.StepCounter{Cap: 400000}
		restore := sc.Install()
		func() {
			defer func() { esc = recover() }()
			ret, serr = svm.Run(w.Globals)
		}()
		restore()
		rc.Fault("recovered-panic-storm")
		want := fmt.Sprintf("[i:%d,i:0,i:0]", 2*n)
		if esc != nil || serr != nil || sim.Canon(ret) != want {
			rc.Decoded = map[string]any{"script": c06Storm, "N": n, "panic_kind": kind.String()}
			rc.Fail("recovery-accumulates", "panic-storm", "a script that recovers from %d host panics (%s) returned %s err=%v escaped=%v, want %s = [caught, growth of the Go stack under a host call in main, the same in a callee]\nscript:\n%s", 2*n, kind, sim.Canon(ret), serr, esc, want, c06Storm)
			return
		}
	}
	vm.SetBytecode(bc)
	vm.Clear()
	again := run(vm, bc, spec, true, false)
	if hung {
		rc.Fatal = true
		rc.Decoded = decoded()
		rc.Fail("run-hangs", "followup-hangs:"+firstCtx, "after the faulted run and Clear the VM did not finish the fault-free script within 20 s")
		return
	}
	if !again.out.Equal(clean.out) || again.escaped != "" {
		rc.Decoded = decoded()
		rc.Fail("vm-unusable-after-panic", "followup-differs:"+firstCtx, "after the faulted run and Clear, the fault-free run differs from a new VM\n new VM:  %s\n used VM: %s %s", clean.out, again.out, again.escaped)
	}
}

func truncateStr(s string, n int) string {
	if len(s) > n {
		return s[:n] + "…"
	}
	return s
}

func init() {
	sim.Register(&sim.Engine{
		ID:    "C06",
		Level: "exploration",
		Rule: "each run is a script of 1–5 probes `try { log(bK); <context>(<site>); log(aK) } catch e { log(cK, isError(e)) } finally { log(fK) }`; site ∈ {host function, host object BinaryOp/IndexGet/IndexSet/Call/CallName/String/Equal/IsFalsy/Iterate/Next/Key/Value, VM remainder by zero, json.Marshal of a cyclic value}; " +
			"context ∈ {plain, callee at depth 1–300, child VM, child of child, finally with pending return, catch, frame array at 1000–1029, value stack at 1990–2039 (wide literal), 240-argument calls nested 1–8, callbacks of strings.Map/TrimFunc/IndexFunc/FieldsFunc/TrimLeftFunc, unbounded recursion whose frames catch the frame overflow, a try statement inside the function that runs on the child VM, value-stack exhaustion by recursion under an active handler}; ≤2 sites per run panic (string, error, runtime.Error, struct, typed-nil error pointer payload) or return an error. " +
			"Oracles: recover() around Run sees nothing; a run that returns a value entered each struck probe's catch and finally exactly once and skipped the statement after the site, and equals the twin run in which the host returns the same text as an error; after Clear the same VM runs the fault-free script and a fixed script like a new VM. " +
			"Non-trivial = a fault fired (or a VM-internal panic site exists); distinct = distinct (context/site vector, fault table).",
		Assumptions: []string{"a panic may legitimately end the run with an error instead of reaching a handler: only value-returning runs are compared", "memory-exhausting inputs are not generated"},
		Real:        []string{"VM.Run with SetRecover(true)", "handlePanic / run loop", "Invoker/vmPool", "stdlib strings.Map", "compiler"},
		Simulated:   []string{"host function and host object methods and their failures", "child-VM sync.Pool policy"},
		Runs: func(tier string) int {
			if tier == "thorough" {
				return 5000000
			}
			return 60000
		},
		WallCap: func(tier string) float64 {
			if tier == "thorough" {
				return 1500
			}
			return 120
		},
		Run:          c06Run,
		ShrinkBudget: 800,
	})
}
