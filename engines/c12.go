package engines

import (
	"bytes"
	"errors"
	"fmt"
	"os"
	"strings"
	"time"

	"github.com/ozanh/ugo"
	"github.com/ozanh/ugo/encoder"
	"github.com/ozanh/ugo/importers"
	"verif/sim"
)

// C12 — a module is loaded once per run and every import sees the same object.
//
// Simulator-owned: the run-time order in which import sites execute (a host
// driven loop picks module, route — direct or through a child VM — and action
// at every step), failure of a module body on its first attempt, and the
// module file system behind importers.FileImporter.
// Oracle: refinement against a small model of module loading and state.

type c12Mod struct {
	name    string
	file    bool  // served by the simulated file system through FileImporter
	topDeps []int // imported at the top of the body
	lazyDep int   // imported inside an exported function (-1: none)
	lib     bool  // file modules only: lives in the sub directory lib/
	array   bool  // the module's value is an array [cell, get, inc, depinc, lazy, hinc] instead of a map
}

func c12ModName(i int, file bool) string {
	if file {
		return fmt.Sprintf("f%d.ugo", i)
	}
	return fmt.Sprintf("m%d", i)
}

// c12Path is the path of a file module relative to the root directory /sim.
func c12Path(m c12Mod) string {
	if m.lib {
		return "lib/" + m.name
	}
	return m.name
}

// c12Spell returns one of several equivalent spellings of a module's name as seen from the importer `from` (nil: the
// main script in /sim): FileImporter resolves relative names against the directory of the importing file, and all
// spellings of one file name the same module.
func c12Spell(t *sim.Tape, from *c12Mod, m c12Mod) string {
	if !m.file {
		return m.name
	}
	abs := "/sim/" + c12Path(m)
	if from != nil && !from.file {
		// a named source module has no directory of its own
		return abs
	}
	d := 0
	if t != nil {
		d = t.Draw(5)
	}
	if from != nil && from.lib {
		if m.lib {
			return []string{m.name, "./" + m.name, "../lib/" + m.name, abs, "././" + m.name}[d]
		}
		return []string{"../" + m.name, "../" + m.name, "./../" + m.name, abs, "../lib/../" + m.name}[d]
	}
	p := c12Path(m)
	return []string{p, "./" + p, "sub/../" + p, abs, "././" + p}[d]
}

func c12Source(t *sim.Tape, mods []c12Mod, i int) string {
	m := mods[i]
	var sb strings.Builder
	sb.WriteString("rec := import(\"rec\")\n")
	fmt.Fprintf(&sb, "rec.body(%d)\n", i)
	for _, d := range m.topDeps {
		fmt.Fprintf(&sb, "d%d := import(%q)\n", d, c12Spell(t, &m, mods[d]))
	}
	fmt.Fprintf(&sb, "rec.mop(%d)\n", i)
	sb.WriteString("state := {n: 0}\n")
	sb.WriteString("fld := func(m, i, name) { return isArray(m) ? m[i] : m[name] }\n")
	sb.WriteString("exp := {\n\tcell: [0],\n\tget: func() { return state.n },\n\tinc: func() { state.n++; return state.n },\n")
	if len(m.topDeps) > 0 {
		fmt.Fprintf(&sb, "\tdepinc: func() { return fld(d%d, 2, \"inc\")() },\n", m.topDeps[0])
	} else {
		sb.WriteString("\tdepinc: func() { return -1 },\n")
	}
	if m.lazyDep >= 0 {
		fmt.Fprintf(&sb, "\tlazy: func() { x := import(%q); return fld(x, 2, \"inc\")() },\n", c12Spell(t, &m, mods[m.lazyDep]))
	} else {
		sb.WriteString("\tlazy: func() { return -1 },\n")
	}
	// the builtin module value is one object per VM, whoever imports it: a scalar attribute written through one import
	// is read through another import expression
	sb.WriteString("\thinc: func() { hh := import(\"host\"); hh.arr[1] += 1; hh.int = hh.arr[1]; return import(\"host\").int },\n")
	sb.WriteString("}\n")
	if m.array {
		sb.WriteString("return [exp.cell, exp.get, exp.inc, exp.depinc, exp.lazy, exp.hinc]\n")
	} else {
		sb.WriteString("return exp\n")
	}
	return sb.String()
}

func c12Driver(t *sim.Tape, mods []c12Mod, steps int, topImports []int, stride int) string {
	var sb strings.Builder
	sb.WriteString(sim.Prelude)
	sb.WriteString("fld := func(m, i, name) { return isArray(m) ? m[i] : m[name] }\n")
	sb.WriteString("h := import(\"host\")\nh.arr[0] += 1\nh.map.k += 1\nlog(\"h\", h.arr[0], h.map.k)\n")
	for _, k := range topImports {
		// an import of the same module earlier in the same function scope that may or may not execute
		fmt.Fprintf(&sb, "try { if choose(5) > 2 { p%d := import(%q); log(\"pre\", %d, fld(p%d, 2, \"inc\")()) } } catch e { log(\"prefail\", %d, e.Message) }\n", k, c12Spell(t, nil, mods[k]), k, k, k)
		fmt.Fprintf(&sb, "try { t%d := import(%q); log(\"top\", %d, fld(t%d, 2, \"inc\")()) } catch e { log(\"topfail\", %d, e.Message) }\n", k, c12Spell(t, nil, mods[k]), k, k, k)
	}
	sb.WriteString("imps := [\n")
	for _, m := range mods {
		fmt.Fprintf(&sb, "\tfunc() { return import(%q) },\n", c12Spell(t, nil, m))
	}
	sb.WriteString("]\n")
	fmt.Fprintf(&sb, "for step := 0; step < %d; step++ {\n", steps)
	fmt.Fprintf(&sb, "\tk := (choose(0) * 4 + choose(1) + step * %d) %% %d\n", stride, len(mods))
	sb.WriteString("\tvia := choose(2)\n\tact := choose(3)\n\tif choose(4) > 2 { act = act + 4 }\n\ttry {\n\t\tm := undefined\n\t\tif via > 1 { m = call(imps[k]) } else { m = imps[k]() }\n")
	sb.WriteString("\t\tr := undefined\n\t\tif act == 0 || act == 7 { r = fld(m, 2, \"inc\")() } else if act == 1 { r = fld(m, 1, \"get\")() } else if act == 6 { c := fld(m, 0, \"cell\"); c[0] += 1; r = c[0] } else if act == 2 { r = fld(m, 3, \"depinc\")() } else if act == 3 { r = fld(m, 4, \"lazy\")() } else if act == 4 { r = fld(m, 5, \"hinc\")() } else { h.arr[1] += 1; h.int = h.arr[1]; r = import(\"host\").int }\n")
	sb.WriteString("\t\tlog(\"step\", k, act, r)\n\t} catch e {\n\t\tlog(\"fail\", k, e.Message)\n\t}\n}\nreturn \"done\"\n")
	return sb.String()
}

// ---- model ----

type c12Model struct {
	mods    []c12Mod
	spec    *sim.WorldSpec
	loaded  []bool
	cnt     []int
	mopOcc  []int
	bodies  []int
	hist    []string
	chooseN map[int]int
	failMsg string
	reload  bool  // a body started again after a failed attempt
	hostCnt int   // host.arr[1], one value per VM
	cell    []int // the array cell inside each module's value (copied once per VM, shared by all importers)
}

func (m *c12Model) choose(id int) int {
	n := m.chooseN[id]
	m.chooseN[id] = n + 1
	v := 0
	if id < len(m.spec.Choices) && n < len(m.spec.Choices[id]) {
		v = m.spec.Choices[id][n]
	}
	m.hist = append(m.hist, fmt.Sprintf("choose(%d)#%d=%d", id, n, v))
	return v
}

func (m *c12Model) load(k int) bool {
	if m.loaded[k] {
		return true
	}
	if m.bodies[k] > 0 {
		m.reload = true
	}
	m.bodies[k]++
	m.hist = append(m.hist, fmt.Sprintf("body(%d)", k))
	for _, d := range m.mods[k].topDeps {
		if !m.load(d) {
			return false
		}
	}
	occ := m.mopOcc[k]
	m.mopOcc[k]++
	m.hist = append(m.hist, fmt.Sprintf("mop(%d)#%d", k, occ))
	for _, f := range m.spec.Faults {
		if f.ID == k && f.Occ == occ {
			m.failMsg = sim.FaultText(k, occ)
			return false
		}
	}
	m.loaded[k] = true
	return true
}

func (m *c12Model) act(k, act int) (int, bool) {
	if !m.load(k) {
		return 0, false
	}
	switch act {
	case 0, 7:
		m.cnt[k]++
		return m.cnt[k], true
	case 1:
		return m.cnt[k], true
	case 6:
		m.cell[k]++
		return m.cell[k], true
	case 4, 5:
		m.hostCnt++
		return m.hostCnt, true
	case 2:
		if len(m.mods[k].topDeps) == 0 {
			return -1, true
		}
		d := m.mods[k].topDeps[0]
		m.cnt[d]++
		return m.cnt[d], true
	default:
		d := m.mods[k].lazyDep
		if d < 0 {
			return -1, true
		}
		if !m.load(d) {
			return 0, false
		}
		m.cnt[d]++
		return m.cnt[d], true
	}
}

func (m *c12Model) run(steps int, topImports []int, stride int) sim.Outcome {
	m.hist = append(m.hist, "s:\"h\" i:2 i:8")
	for _, k := range topImports {
		if m.choose(5) > 2 {
			if r, ok := m.act(k, 0); ok {
				m.hist = append(m.hist, fmt.Sprintf("s:\"pre\" i:%d i:%d", k, r))
			} else {
				m.hist = append(m.hist, fmt.Sprintf("s:\"prefail\" i:%d s:%q", k, m.failMsg))
			}
		}
		if r, ok := m.act(k, 0); ok {
			m.hist = append(m.hist, fmt.Sprintf("s:\"top\" i:%d i:%d", k, r))
		} else {
			m.hist = append(m.hist, fmt.Sprintf("s:\"topfail\" i:%d s:%q", k, m.failMsg))
		}
	}
	for s := 0; s < steps; s++ {
		k := (m.choose(0)*4 + m.choose(1) + s*stride) % len(m.mods)
		m.choose(2)
		act := m.choose(3)
		if m.choose(4) > 2 {
			act += 4
		}
		if r, ok := m.act(k, act); ok {
			m.hist = append(m.hist, fmt.Sprintf("s:\"step\" i:%d i:%d i:%d", k, act, r))
		} else {
			m.hist = append(m.hist, fmt.Sprintf("s:\"fail\" i:%d s:%q", k, m.failMsg))
		}
	}
	return sim.Outcome{Kind: "value", Value: "s:\"done\"", Hist: m.hist}
}

// recModule is the builtin module through which module bodies report to the world.
func recModule(get func() *sim.World) map[string]ugo.Object {
	mopOcc := map[*sim.World]map[int]int{}
	return map[string]ugo.Object{
		"body": &ugo.Function{Name: "body", Value: func(args ...ugo.Object) (ugo.Object, error) {
			w := get()
			w.Hist = append(w.Hist, fmt.Sprintf("body(%d)", int(args[0].(ugo.Int))))
			return ugo.Undefined, nil
		}},
		"mop": &ugo.Function{Name: "mop", Value: func(args ...ugo.Object) (ugo.Object, error) {
			w := get()
			k := int(args[0].(ugo.Int))
			if mopOcc[w] == nil {
				mopOcc[w] = map[int]int{}
			}
			occ := mopOcc[w][k]
			mopOcc[w][k] = occ + 1
			w.Hist = append(w.Hist, fmt.Sprintf("mop(%d)#%d", k, occ))
			if kind := w.FaultFor(k, occ); kind != sim.FNone {
				w.Fired = append(w.Fired, sim.FaultAt{ID: k, Occ: occ, Kind: kind})
				return nil, errors.New(sim.FaultText(k, occ))
			}
			return ugo.Undefined, nil
		}},
	}
}

func c12Run(rc *sim.RunCtx) {
	t := rc.T
	n := 2 + t.Draw(7)
	stride := 0
	if t.Bool(1, 40) {
		// more modules than fit into one byte of a module index
		n = 258 + t.Draw(50)
		stride = 37
		rc.Probe("more-than-256-modules")
	}
	mods := make([]c12Mod, n)
	for i := range mods {
		mods[i].file = t.Bool(1, 4)
		mods[i].name = c12ModName(i, mods[i].file)
		mods[i].lazyDep = -1
		mods[i].lib = mods[i].file && t.Bool(1, 2)
		mods[i].array = t.Bool(1, 3)
	}
	// edges only from lower to higher index
	for i := 0; i < n-1; i++ {
		if n > 16 && i%16 != 0 {
			continue // big graphs stay sparse
		}
		for k, nd := 0, t.Pick(2, 3, 2, 1); k < nd; k++ {
			d := i + 1 + t.Draw(n-i-1)
			dup := false
			for _, x := range mods[i].topDeps {
				dup = dup || x == d
			}
			if !dup {
				mods[i].topDeps = append(mods[i].topDeps, d)
			}
		}
		if t.Bool(1, 3) {
			mods[i].lazyDep = i + 1 + t.Draw(n-i-1)
		}
	}
	negative := t.Pick(4, 1, 1, 1) // 0: well-formed graph; 1: cycle; 2: unknown module; 3: failing reader
	badDesc := ""
	switch negative {
	case 1:
		// back edge closing a cycle of drawn length
		from := 1 + t.Draw(n-1)
		to := t.Draw(from + 1) // to <= from: self-import allowed
		// make sure `to` reaches `from` through top-level imports: chain to→…→from
		for x := to; x < from; x++ {
			has := false
			for _, d := range mods[x].topDeps {
				has = has || d == x+1
			}
			if !has {
				mods[x].topDeps = append(mods[x].topDeps, x+1)
			}
		}
		if t.Bool(1, 2) {
			mods[from].topDeps = append(mods[from].topDeps, to)
		} else {
			mods[from].lazyDep = to
		}
		badDesc = fmt.Sprintf("cycle %d→…→%d→%d (length %d)", to, from, to, from-to+1)
	}
	failingFile := ""
	readErrKind := 0
	if negative == 3 {
		// one module becomes a file whose read fails
		k := t.Draw(n)
		mods[k].file = true
		mods[k].name = c12ModName(k, true)
		failingFile = mods[k].name
		readErrKind = t.Draw(2)
		badDesc = fmt.Sprintf("reading %s fails (%s)", c12Path(mods[k]), []string{"file does not exist", "read error"}[readErrKind])
	}
	sources := map[string]string{}
	for i := range mods {
		sources[mods[i].name] = c12Source(t, mods, i)
	}
	if negative == 2 {
		k := t.Draw(n)
		// a name nobody registered - or the name of a registered source module with a suffix or in another case
		unknown := "nosuchmodule"
		var srcMods []string
		for _, m := range mods {
			if !m.file {
				srcMods = append(srcMods, m.name)
			}
		}
		if len(srcMods) > 0 && t.Bool(1, 2) {
			base := srcMods[t.Draw(len(srcMods))]
			unknown = []string{base + ".ugo", strings.ToUpper(base), base + " ", base + ".ugo"}[t.Draw(4)]
		}
		sources[mods[k].name] = strings.Replace(sources[mods[k].name], "rec.mop(", "zz := import(\""+unknown+"\")\nrec.mop(", 1)
		badDesc = fmt.Sprintf("module %d imports the unknown module %q", k, unknown)
	}
	_ = 0
	steps := 4 + t.Draw(27)
	var topImports []int
	for i := 0; i < n && len(topImports) < 6; i++ {
		if t.Bool(1, 5) {
			topImports = append(topImports, i)
		}
	}
	if negative != 0 && len(topImports) == 0 {
		topImports = []int{0}
	}
	driver := c12Driver(t, mods, steps, topImports, stride)

	// host world
	spec := &sim.WorldSpec{Name: "w0"}
	for id := 0; id < 6; id++ {
		row := make([]int, steps+len(topImports)+1)
		for j := range row {
			row[j] = t.Draw(4)
		}
		spec.Choices = append(spec.Choices, row)
	}
	for i, nf := 0, t.Draw(3); i < nf; i++ {
		spec.Faults = append(spec.Faults, sim.FaultAt{ID: t.Draw(n), Occ: 0, Kind: sim.FGoErr})
	}
	for i := 0; i < 64; i++ {
		spec.Pooled = append(spec.Pooled, t.Bool(1, 2))
		spec.Repeat = append(spec.Repeat, 0)
	}

	var curWorld *sim.World
	mm := newModuleMap(nil)
	mm.AddBuiltinModule("rec", recModule(func() *sim.World { return curWorld }))
	reads := 0
	reader := func(path string) ([]byte, error) {
		reads++
		name := path[strings.LastIndex(path, "/")+1:]
		// the file exists only in its own directory
		for _, m := range mods {
			if m.file && m.name == name && path != "/sim/"+c12Path(m) {
				return nil, os.ErrNotExist
			}
		}
		if name == failingFile {
			rc.Fault("file-read-" + []string{"missing", "error"}[readErrKind])
			if readErrKind == 0 {
				return nil, os.ErrNotExist
			}
			return nil, errors.New("simulated read error")
		}
		src, ok := sources[name]
		if !ok {
			return nil, os.ErrNotExist
		}
		return []byte(src), nil
	}
	for _, m := range mods {
		if !m.file {
			mm.AddSourceModule(m.name, []byte(sources[m.name]))
		}
	}
	mm.SetExtImporter(&importers.FileImporter{WorkDir: "/sim", FileReader: reader})
	noOpt := t.Bool(1, 2)

	// compile under a watchdog: a hang is a violation
	type cres struct {
		bc  *ugo.Bytecode
		err error
	}
	ch := make(chan cres, 1)
	go func() {
		bc, err := ugo.Compile([]byte(driver), ugo.CompilerOptions{ModuleMap: mm, NoOptimize: noOpt, ModulePath: "/sim/main.ugo"})
		ch <- cres{bc, err}
	}()
	var cr cres
	select {
	case cr = <-ch:
	case <-time.After(30 * time.Second):
		rc.Fatal = true
		rc.Decoded = map[string]any{"driver": driver, "modules": sources, "graph": badDesc}
		rc.Fail("compile-hangs", "compile-hangs", "Compile did not return within 30s for a graph with %s", badDesc)
		return
	}
	graph := func() []string {
		var g []string
		for i, m := range mods {
			g = append(g, fmt.Sprintf("%d:%s top=%v lazy=%d", i, m.name, m.topDeps, m.lazyDep))
		}
		return g
	}
	if negative != 0 {
		rc.Sig = fmt.Sprintf("neg %d n=%d %s", negative, n, badDesc)
		rc.Probe("negative-graph:" + []string{"", "cycle", "unknown-module", "failing-reader"}[negative])
		rc.Logf("negative %s err=%v", badDesc, cr.err != nil)
		if cr.err == nil {
			rc.Decoded = map[string]any{"driver": driver, "modules": sources, "graph": graph(), "defect": badDesc}
			rc.Fail("bad-graph-accepted", "bad-graph-accepted:"+[]string{"", "cycle", "unknown-module", "failing-reader"}[negative], "Compile accepted a module graph with %s", badDesc)
		}
		return
	}
	if cr.err != nil {
		rc.Decoded = map[string]any{"driver": driver, "modules": sources, "graph": graph()}
		rc.Fail("good-graph-rejected", "good-graph-rejected", "Compile rejected a well-formed acyclic module graph: %v", cr.err)
		return
	}
	bc := cr.bc
	roundTrip := t.Bool(1, 3)
	if roundTrip {
		var buf bytes.Buffer
		if err := encoder.EncodeBytecodeTo(bc, &buf); err != nil {
			rc.Discard = "encode-error"
			return
		}
		dbc, err := encoder.DecodeBytecodeFrom(&buf, mm)
		if err != nil {
			rc.Decoded = map[string]any{"driver": driver, "modules": sources}
			rc.Fail("decode-failed", "decode-failed", "decoding the encoded module program failed: %v", err)
			return
		}
		bc = dbc
		rc.Probe("after-encode-decode")
	}

	model := &c12Model{hostCnt: 2, cell: make([]int, n), mods: mods, spec: spec, loaded: make([]bool, n), cnt: make([]int, n), mopOcc: make([]int, n), bodies: make([]int, n), chooseN: map[int]int{}}
	want := model.run(steps, topImports, stride)

	pool := &sim.SimPool{T: t}
	restore := pool.Install()
	defer restore()
	sc := &sim.StepCounter{Cap: 400000}
	restoreHook := sc.Install()
	defer restoreHook()
	runVM := func() sim.Outcome {
		curWorld = sim.NewWorld(spec, nil)
		vm := ugo.NewVM(bc).SetRecover(true)
		ret, err := vm.Run(curWorld.Globals)
		return sim.MakeOutcome(ret, err, curWorld.Hist)
	}
	got := runVM()
	firedFaults := len(curWorld.Fired)
	rc.Steps = sc.Steps
	viaChild := 0
	for _, e := range curWorld.CallErrs {
		_ = e
		viaChild++
	}
	for i := 0; i < firedFaults; i++ {
		rc.Fault("module-body-fails")
	}
	if viaChild > 0 {
		rc.Probe("import-executed-inside-child-vm")
	}
	if model.reload {
		rc.Probe("body-failed-then-started-again")
	}
	rc.Logf("n=%d steps=%d got=%s", n, steps, got)
	rc.Sig = fmt.Sprintf("%v|%v|%v", graph(), spec.Choices, spec.Faults)
	if rc.Index%29 == 0 {
		rc.Sample = map[string]any{"graph": graph(), "driver": driver, "module_0": sources[mods[0].name], "steps": steps, "faults": spec.Faults, "file_reads": reads}
	}
	decoded := map[string]any{"graph": graph(), "driver": driver, "modules": sources, "optimizer_off": noOpt, "round_trip": roundTrip, "faults": spec.Faults, "choices": spec.Choices}
	if !got.Equal(want) {
		i := 0
		for i < len(got.Hist) && i < len(want.Hist) && got.Hist[i] == want.Hist[i] {
			i++
		}
		at := func(h []string) string {
			if i < len(h) {
				return h[i]
			}
			return "<end>"
		}
		key := "module-state"
		switch {
		case strings.HasPrefix(at(got.Hist), "body(") && !strings.HasPrefix(at(want.Hist), "body("):
			key = "body-executed-again"
		case strings.HasPrefix(at(want.Hist), "body(") && !strings.HasPrefix(at(got.Hist), "body("):
			key = "body-not-executed"
		case got.Kind != want.Kind:
			key = "outcome"
		}
		rc.Decoded = decoded
		rc.Fail("module-semantics", "module:"+key, "VM and module model diverge at history index %d: vm=%s model=%s\n model: %s\n vm:    %s\ngraph: %v\ndriver:\n%s", i, at(got.Hist), at(want.Hist), want, got, graph(), driver)
		return
	}
	// builtin-module values are private per VM: a second VM of the same Bytecode behaves identically
	got2 := runVM()
	if !got2.Equal(want) {
		rc.Decoded = decoded
		rc.Fail("module-privacy", "second-vm-differs", "a second VM running the same Bytecode differs from the first (builtin-module values leaked?)\n first:  %s\n second: %s", got, got2)
	}
}

func init() {
	sim.Register(&sim.Engine{
		ID:    "C12",
		Level: "exploration",
		Rule: "each run draws an import graph over 2–8 source modules (edges from lower to higher index: imports at the top of a body and imports inside exported functions; a quarter of the modules are files behind importers.FileImporter with a simulated FileReader, named through several equivalent relative and absolute spellings), compiles a driver whose loop lets the host choose at every step the module, the route (direct call of an import site or through a child VM) and the action (inc/get own state, inc through a dependency's import, import-and-inc inside a function, increment a builtin-module value through the module's or the main script's import), and may make a module body fail on its first attempt. " +
			"Oracle: history and outcome equal a model in which a body runs once per successful load (a failed body may start again) and every import of a module reaches one shared state; a second VM of the same Bytecode behaves identically (builtin-module values private). " +
			"3/7 of the runs are negative graphs — a cycle of drawn length (closed through a top-level or an in-function import), an unknown module, a failing file read — which Compile must reject (30 s watchdog). Swarm: optimizer on/off, encode/decode round trip. Distinct = distinct (graph, choice table, fault table).",
		Assumptions: []string{"module bodies report through a builtin module (source modules cannot see globals)", "the model (≈80 lines) encodes: load = body + top-level deps in order + possible failure; state per module is one counter"},
		Real:        []string{"compiler (compileModule, moduleStore, checkCyclicImports)", "VM OpLoadModule/OpStoreModule", "importers.FileImporter", "Invoker (imports inside child VMs)", "encoder (round-trip runs)"},
		Simulated:   []string{"module file system", "host-chosen execution order of import sites", "module body failures"},
		Runs: func(tier string) int {
			if tier == "thorough" {
				return 4000000
			}
			return 50000
		},
		WallCap: func(tier string) float64 {
			if tier == "thorough" {
				return 1500
			}
			return 120
		},
		Run:          c12Run,
		ShrinkBudget: 800,
	})
}
