package engines

import (
	"fmt"
	"strings"

	"github.com/ozanh/ugo"
	"verif/sim"
)

// C03 — finally runs exactly once on every exit path and the pending outcome
// survives it.
//
// Simulator-owned: which dynamic host call fails (fault table keyed by
// (op id, occurrence)) and which host-chosen branch is taken (choose).
// Workload: tape-generated try/catch/finally nests in ≤4 functions, always
// preceded by 0–3 already-completed try statements in the same activation.
// Oracle: refinement against a small interpreter with ECMAScript completion
// records consulting the same fault/choice tables.

type c03Kind int

const (
	kLog c03Kind = iota
	kOp
	kIf
	kLoop
	kBreak
	kContinue
	kReturn
	kThrow
	kCall
	kTry
	kRtErr
	kLoopIn    // for k, v in [..] { } — keeps an iterator on the value stack
	kRethrow   // throw <catch variable> inside a catch block with an identifier
	kThrowObj  // throw error("o<k>")
	kCallInLit // log("r", [7, 8, fN()][2]): a call while a literal is half built
	kSelfRet   // if dN < 3 { return fN() }: bounded self-recursion in return position (tail-call path)
)

type c03Node struct {
	kind       c03Kind
	k          int // log constant / op id / choose id / loop bound / return value / throw value / callee / rt index
	body       []*c03Node
	els        []*c03Node // if-else
	catch      []*c03Node
	finally    []*c03Node
	hasCatch   bool
	hasFinally bool
	catchVar   bool
	inline     bool // kCall: the callee's body is written out as a function literal at the call site
}

type c03Gen struct {
	t        *sim.Tape
	nFuncs   int
	budget   int
	nextLog  int
	nextLoop int
	roles    map[int]string // log constant → role of the statement
	maxDepth int
	feat     map[string]bool
	// catch identifiers in scope (innermost last) and the counter that numbers them
	catchVars []int
	nCatch    int
}

func (g *c03Gen) logNode(role string) *c03Node {
	g.nextLog++
	g.roles[g.nextLog] = role
	return &c03Node{kind: kLog, k: g.nextLog}
}

// stmts generates a block. role: "plain" | "body" | "catch" | "finally";
// inLoop: break/continue allowed; fn: index of the current function.
func (g *c03Gen) stmts(n int, role string, depth int, inLoop bool, fn int) []*c03Node {
	var out []*c03Node
	for i := 0; i < n && g.budget > 0; i++ {
		g.budget--
		w := []int{5, 4, 2, 2, 1, 1, 2, 2, 2, 5, 1, 2, 1, 1, 1, 1}
		if !inLoop {
			w[kBreak], w[kContinue] = 0, 0
		}
		if fn >= g.nFuncs-1 {
			w[kCall], w[kCallInLit] = 0, 0
		}
		if depth >= g.maxDepth {
			w[kTry], w[kLoop], w[kIf], w[kLoopIn] = 0, 0, 0, 0
		}
		if len(g.catchVars) == 0 {
			w[kRethrow] = 0
		}
		switch c03Kind(g.t.Pick(w...)) {
		case kLog:
			out = append(out, g.logNode(role))
		case kOp:
			out = append(out, &c03Node{kind: kOp, k: g.t.Draw(4)})
		case kIf:
			nd := &c03Node{kind: kIf, k: g.t.Draw(3)}
			nd.body = g.stmts(1+g.t.Draw(2), role, depth+1, inLoop, fn)
			if g.t.Bool(1, 2) {
				nd.els = g.stmts(1+g.t.Draw(2), role, depth+1, inLoop, fn)
			}
			out = append(out, nd)
		case kLoop:
			nd := &c03Node{kind: kLoop, k: 1 + g.t.Draw(3)}
			nd.body = g.stmts(1+g.t.Draw(3), role, depth+1, true, fn)
			out = append(out, nd)
		case kBreak:
			out = append(out, &c03Node{kind: kBreak})
			return out
		case kContinue:
			out = append(out, &c03Node{kind: kContinue})
			return out
		case kReturn:
			nd := &c03Node{kind: kReturn, k: 100 + g.t.Draw(50)}
			if g.t.Bool(1, 4) {
				nd.k = -1 // a bare return
			}
			out = append(out, nd)
			return out
		case kSelfRet:
			out = append(out, &c03Node{kind: kSelfRet, k: fn})
		case kThrow:
			out = append(out, &c03Node{kind: kThrow, k: g.t.Draw(50)})
			return out
		case kCall:
			out = append(out, &c03Node{kind: kCall, k: fn + 1 + g.t.Draw(g.nFuncs-fn-1), inline: g.t.Bool(1, 3)})
		case kTry:
			out = append(out, g.try(depth, inLoop, fn))
		case kRtErr:
			out = append(out, &c03Node{kind: kRtErr, k: 1 + g.t.Draw(5)})
			return out
		case kLoopIn:
			nd := &c03Node{kind: kLoopIn, k: 1 + g.t.Draw(3)}
			nd.body = g.stmts(1+g.t.Draw(3), role, depth+1, true, fn)
			out = append(out, nd)
		case kRethrow:
			out = append(out, &c03Node{kind: kRethrow, k: g.catchVars[len(g.catchVars)-1]})
			return out
		case kThrowObj:
			out = append(out, &c03Node{kind: kThrowObj, k: g.t.Draw(50)})
			return out
		case kCallInLit:
			out = append(out, &c03Node{kind: kCallInLit, k: fn + 1 + g.t.Draw(g.nFuncs-fn-1)})
		}
	}
	return out
}

func (g *c03Gen) try(depth int, inLoop bool, fn int) *c03Node {
	nd := &c03Node{kind: kTry}
	switch g.t.Draw(3) {
	case 0:
		nd.hasFinally = true
	case 1:
		nd.hasCatch = true
	default:
		nd.hasCatch, nd.hasFinally = true, true
	}
	nd.catchVar = g.t.Bool(1, 2)
	nd.body = g.stmts(1+g.t.Draw(3), "body", depth+1, inLoop, fn)
	if nd.hasCatch {
		if nd.catchVar {
			g.nCatch++
			nd.k = g.nCatch
			g.catchVars = append(g.catchVars, nd.k)
		}
		nd.catch = g.stmts(g.t.Draw(3), "catch", depth+1, inLoop, fn)
		if nd.catchVar {
			g.catchVars = g.catchVars[:len(g.catchVars)-1]
		}
	}
	if nd.hasFinally {
		nd.finally = g.stmts(1+g.t.Draw(2), "finally", depth+1, inLoop, fn)
	}
	return nd
}

// completedTry is a try statement that certainly completes normally: the
// history prefix the property quantifies over.
func (g *c03Gen) completedTry() *c03Node {
	nd := &c03Node{kind: kTry}
	switch g.t.Draw(4) {
	case 0: // try {} finally {}
		nd.hasFinally = true
	case 1: // try { L } finally { L }
		nd.hasFinally = true
		nd.body = []*c03Node{g.logNode("body")}
		nd.finally = []*c03Node{g.logNode("finally")}
	case 2: // try { throw } catch { L }
		nd.hasCatch = true
		nd.body = []*c03Node{{kind: kThrow, k: g.t.Draw(50)}}
		nd.catch = []*c03Node{g.logNode("catch")}
	default: // try { L } catch {} finally { L }
		nd.hasCatch, nd.hasFinally = true, true
		nd.body = []*c03Node{g.logNode("body")}
		nd.finally = []*c03Node{g.logNode("finally")}
	}
	return nd
}

// ---- rendering ----

type c03Render struct {
	sb   strings.Builder
	loop int
	ev   int
	lits int
	fns  [][]*c03Node
}

func (r *c03Render) block(ns []*c03Node, lvl int) {
	for _, n := range ns {
		r.node(n, lvl)
	}
}

func (r *c03Render) node(n *c03Node, lvl int) {
	in := ind(lvl)
	switch n.kind {
	case kLog:
		fmt.Fprintf(&r.sb, "%slog(%d)\n", in, n.k)
	case kOp:
		fmt.Fprintf(&r.sb, "%sop(%d)\n", in, n.k)
	case kIf:
		fmt.Fprintf(&r.sb, "%sif choose(%d) > 1 {\n", in, n.k)
		r.block(n.body, lvl+1)
		if n.els != nil {
			fmt.Fprintf(&r.sb, "%s} else {\n", in)
			r.block(n.els, lvl+1)
		}
		fmt.Fprintf(&r.sb, "%s}\n", in)
	case kLoop:
		r.loop++
		v := fmt.Sprintf("i%d", r.loop)
		fmt.Fprintf(&r.sb, "%sfor %s := 0; %s < %d; %s++ {\n", in, v, v, n.k, v)
		r.block(n.body, lvl+1)
		fmt.Fprintf(&r.sb, "%s}\n", in)
	case kBreak:
		fmt.Fprintf(&r.sb, "%sbreak\n", in)
	case kContinue:
		fmt.Fprintf(&r.sb, "%scontinue\n", in)
	case kReturn:
		if n.k < 0 {
			fmt.Fprintf(&r.sb, "%sreturn\n", in)
		} else {
			fmt.Fprintf(&r.sb, "%sreturn %d\n", in, n.k)
		}
	case kSelfRet:
		fmt.Fprintf(&r.sb, "%sif d%d < 3 { return f%d() }\n", in, n.k, n.k)
	case kThrow:
		fmt.Fprintf(&r.sb, "%sthrow \"t%d\"\n", in, n.k)
	case kCall:
		if n.inline && r.fns != nil {
			// the same function, written as a literal where it is called (inside whatever try, catch, finally or loop
			// body that is): same statements, same activation counter
			r.lits++
			name := fmt.Sprintf("lf%d", r.lits)
			fmt.Fprintf(&r.sb, "%s%s := func() {\n%s\td%d++\n", in, name, in, n.k)
			r.block(r.fns[n.k], lvl+1)
			fmt.Fprintf(&r.sb, "%s}\n%slog(\"r\", %s())\n", in, in, name)
			break
		}
		fmt.Fprintf(&r.sb, "%slog(\"r\", f%d())\n", in, n.k)
	case kRtErr:
		fmt.Fprintf(&r.sb, "%slog([][%d])\n", in, n.k)
	case kLoopIn:
		r.loop++
		lit := []string{"", "[7]", "[7, 8]", "[7, 8, 9]"}[n.k]
		fmt.Fprintf(&r.sb, "%sfor k%d, v%d in %s {\n", in, r.loop, r.loop, lit)
		r.block(n.body, lvl+1)
		fmt.Fprintf(&r.sb, "%s}\n", in)
	case kRethrow:
		fmt.Fprintf(&r.sb, "%sthrow e%d\n", in, n.k)
	case kThrowObj:
		fmt.Fprintf(&r.sb, "%sthrow error(\"o%d\")\n", in, n.k)
	case kCallInLit:
		fmt.Fprintf(&r.sb, "%slog(\"r\", [7, 8, f%d()][2])\n", in, n.k)
	case kTry:
		fmt.Fprintf(&r.sb, "%stry {\n", in)
		r.block(n.body, lvl+1)
		if n.hasCatch {
			if n.catchVar {
				fmt.Fprintf(&r.sb, "%s} catch e%d {\n%s\tlog(\"c\", e%d.Name, e%d.Message)\n", in, n.k, in, n.k, n.k)
			} else {
				fmt.Fprintf(&r.sb, "%s} catch {\n", in)
			}
			r.block(n.catch, lvl+1)
		}
		if n.hasFinally {
			fmt.Fprintf(&r.sb, "%s} finally {\n", in)
			r.block(n.finally, lvl+1)
		}
		fmt.Fprintf(&r.sb, "%s}\n", in)
	}
}

func c03Script(fns [][]*c03Node, filler, deep int) string {
	r := &c03Render{fns: fns}
	r.sb.WriteString(sim.Prelude)
	// later functions are defined first so that earlier ones can call them
	for i := len(fns) - 1; i >= 0; i-- {
		// dN counts the activations of fN (bounds its self-recursion); var first, so that the body can name itself
		fmt.Fprintf(&r.sb, "d%[1]d := 0\nvar f%[1]d\nf%[1]d = func() {\n\td%[1]d++\n", i)
		if i == 0 && filler > 0 {
			// push the try statements of f0 beyond the first 64 KiB of its instructions (4-byte jump operands)
			r.sb.WriteString("\tzf := 0\n")
			for k := 0; k < filler; k++ {
				r.sb.WriteString("\tzf = zf + 1\n")
			}
		}
		r.block(fns[i], 1)
		r.sb.WriteString("}\n")
	}
	if deep > 0 {
		// the whole nest runs `deep` frames below the main function (no tail call: every level keeps its frame)
		// (no parameter, no local: one value-stack slot per level, so that the frames run out before the value stack;
		// a statement after the call, or the VM turns the self-call into a loop and no frame is kept)
		fmt.Fprintf(&r.sb, "zn := %d\nzres := undefined\nvar zdeep\nzdeep = func() {\n\tzn--\n\tif zn <= 0 {\n\t\tzres = f0()\n\t\treturn\n\t}\n\tzdeep()\n\tzn += 0\n}\nzdeep()\nreturn zres\n", deep)
		return r.sb.String()
	}
	r.sb.WriteString("return f0()\n")
	return r.sb.String()
}

// ---- reference model: ECMAScript completion records ----

type c03Compl struct {
	kind      int // 0 normal, 1 return, 2 break, 3 continue, 4 throw
	val       int
	undef     bool
	name, msg string
}

type c03Model struct {
	nest, maxNest int // function activations of the nest alive at once
	spec          *sim.WorldSpec
	hist          []string
	occ           map[int]int
	chooseN       map[int]int
	fns           [][]*c03Node
	steps         int
	caught        map[int]c03Compl // catch identifier → error it holds
	depth         map[int]int      // activations per function
}

// call activates function n (its activation counter first, as the script does).
func (m *c03Model) call(n int) c03Compl {
	m.depth[n]++
	m.nest++
	if m.nest > m.maxNest {
		m.maxNest = m.nest
	}
	defer func() { m.nest-- }()
	// catch identifiers are locals of the activation
	saved := m.caught
	m.caught = map[int]c03Compl{}
	c := m.block(m.fns[n])
	m.caught = saved
	return c
}

func (m *c03Model) block(ns []*c03Node) c03Compl {
	for _, n := range ns {
		if c := m.node(n); c.kind != 0 {
			return c
		}
	}
	return c03Compl{}
}

func (m *c03Model) node(n *c03Node) c03Compl {
	m.steps++
	switch n.kind {
	case kLog:
		m.hist = append(m.hist, fmt.Sprintf("i:%d", n.k))
	case kOp:
		occ := m.occ[n.k]
		m.occ[n.k] = occ + 1
		m.hist = append(m.hist, fmt.Sprintf("op(%d)#%d", n.k, occ))
		for _, f := range m.spec.Faults {
			if f.ID == n.k && f.Occ == occ {
				switch f.Kind {
				case sim.FGoErr:
					return c03Compl{kind: 4, name: "", msg: sim.FaultText(n.k, occ)}
				case sim.FUgoErr:
					return c03Compl{kind: 4, name: "HostError", msg: sim.FaultText(n.k, occ)}
				}
			}
		}
	case kIf:
		cn := m.chooseN[n.k]
		m.chooseN[n.k] = cn + 1
		v := 0
		if n.k < len(m.spec.Choices) && cn < len(m.spec.Choices[n.k]) {
			v = m.spec.Choices[n.k][cn]
		}
		m.hist = append(m.hist, fmt.Sprintf("choose(%d)#%d=%d", n.k, cn, v))
		if v > 1 {
			return m.block(n.body)
		}
		return m.block(n.els)
	case kLoop:
		for i := 0; i < n.k; i++ {
			c := m.block(n.body)
			switch c.kind {
			case 2:
				return c03Compl{}
			case 1, 4:
				return c
			}
		}
	case kBreak:
		return c03Compl{kind: 2}
	case kContinue:
		return c03Compl{kind: 3}
	case kReturn:
		if n.k < 0 {
			return c03Compl{kind: 1, undef: true}
		}
		return c03Compl{kind: 1, val: n.k}
	case kSelfRet:
		if m.depth[n.k] < 3 {
			c := m.call(n.k)
			if c.kind == 4 {
				return c
			}
			if c.kind == 1 {
				return c
			}
			return c03Compl{kind: 1, undef: true}
		}
	case kThrow:
		return c03Compl{kind: 4, name: "", msg: fmt.Sprintf("t%d", n.k)}
	case kRtErr:
		return c03Compl{kind: 4, name: "IndexOutOfBoundsError", msg: fmt.Sprint(n.k)}
	case kLoopIn:
		for i := 0; i < n.k; i++ {
			c := m.block(n.body)
			switch c.kind {
			case 2:
				return c03Compl{}
			case 1, 4:
				return c
			}
		}
	case kRethrow:
		e := m.caught[n.k]
		return c03Compl{kind: 4, name: e.name, msg: e.msg}
	case kThrowObj:
		return c03Compl{kind: 4, name: "error", msg: fmt.Sprintf("o%d", n.k)}
	case kCallInLit:
		c := m.call(n.k)
		switch {
		case c.kind == 4:
			return c
		case c.kind == 1 && !c.undef:
			m.hist = append(m.hist, fmt.Sprintf("s:\"r\" i:%d", c.val))
		default:
			m.hist = append(m.hist, "s:\"r\" undefined")
		}
	case kCall:
		c := m.call(n.k)
		switch {
		case c.kind == 4:
			return c
		case c.kind == 1 && !c.undef:
			m.hist = append(m.hist, fmt.Sprintf("s:\"r\" i:%d", c.val))
		default:
			m.hist = append(m.hist, "s:\"r\" undefined")
		}
	case kTry:
		c := m.block(n.body)
		if c.kind == 4 && n.hasCatch {
			if n.catchVar {
				m.hist = append(m.hist, fmt.Sprintf("s:\"c\" s:%q s:%q", c.name, c.msg))
				m.caught[n.k] = c
			}
			c = m.block(n.catch)
		}
		if n.hasFinally {
			if f := m.block(n.finally); f.kind != 0 {
				c = f
			}
		}
		return c
	}
	return c03Compl{}
}

func c03Count(ns []*c03Node, f func(*c03Node)) {
	for _, n := range ns {
		f(n)
		c03Count(n.body, f)
		c03Count(n.els, f)
		c03Count(n.catch, f)
		c03Count(n.finally, f)
	}
}

func c03Run(rc *sim.RunCtx) {
	t := rc.T
	g := &c03Gen{t: t, roles: map[int]string{}, feat: map[string]bool{}}
	g.nFuncs = 1 + t.Pick(4, 3, 2, 1)
	g.budget = 8 + t.Draw(32)
	g.maxDepth = 2 + t.Draw(3)
	fns := make([][]*c03Node, g.nFuncs)
	prefixTotal := 0
	for i := range fns {
		np := t.Pick(3, 3, 2, 1)
		prefixTotal += np
		for j := 0; j < np; j++ {
			fns[i] = append(fns[i], g.completedTry())
		}
		g.catchVars = nil
		fns[i] = append(fns[i], g.stmts(1+t.Draw(4), "plain", 0, false, i)...)
	}
	ws := sim.DrawWorldSpec(t, "w", 4, 3, 3, []sim.FaultKind{sim.FGoErr, sim.FUgoErr}, 3, 0)
	filler := 0
	if t.Bool(1, 250) {
		filler = 8200 + t.Draw(400)
		rc.Probe("try-statements-beyond-64KiB")
	}
	deep := 0
	if t.Bool(1, 40) {
		// near the frame limit: handlers must work in the last frames the VM can use
		deep = 1000 + t.Draw(23)
		rc.Probe("nest-near-the-frame-limit")
	}
	src := c03Script(fns, filler, deep)

	// reference model
	m := &c03Model{spec: ws, occ: map[int]int{}, chooseN: map[int]int{}, fns: fns, caught: map[int]c03Compl{}, depth: map[int]int{}}
	mc := m.call(0)
	var want sim.Outcome
	switch mc.kind {
	case 4:
		want = sim.Outcome{Kind: "error", Value: fmt.Sprintf("error(%s:%q)", mc.name, mc.msg), Hist: m.hist}
	case 1:
		want = sim.Outcome{Kind: "value", Value: fmt.Sprintf("i:%d", mc.val), Hist: m.hist}
		if mc.undef {
			want.Value = "undefined"
		}
	default:
		want = sim.Outcome{Kind: "value", Value: "undefined", Hist: m.hist}
	}

	noOpt := t.Bool(1, 3)
	bc, err := compile(src, newModuleMap(nil), noOpt, 0)
	if err != nil {
		rc.Discard = "compile-error"
		rc.Logf("compile error: %v", err)
		if strings.Contains(err.Error(), "finally") || strings.Contains(err.Error(), "not allowed") {
			rc.Probe("compile-rejected:" + msgClass(err.Error()))
		}
		return
	}
	w := sim.NewWorld(ws, rc)
	vm := ugo.NewVM(bc).SetRecover(false)
	var ret ugo.Object
	var rerr error
	var steps int64
	var capped bool
	vmPanic := ""
	func() {
		defer func() {
			if r := recover(); r != nil {
				vmPanic = "vm-panic:" + panicSite("github.com/ozanh/ugo") + ":" + msgClass(r)
				rerr = fmt.Errorf("Go panic escaped from VM.Run: %v", r)
			}
		}()
		ret, rerr, steps, capped = sim.RunCapped(vm, w.Globals, 400000)
	}()
	rc.Steps = steps
	got := sim.MakeOutcome(ret, rerr, w.Hist)
	if deep > 0 && (deep+m.maxNest > 1022 || strings.Contains(got.Value, "StackOverflow")) {
		// the nest's own calls reach the frame limit (the VM can keep 1022 activations below main): a stack overflow
		// - which the VM lets a catch clause of the calling frame intercept - is not what the model describes
		rc.Discard = "frame-limit-reached"
		return
	}

	// probes and non-triviality
	tries, abruptLeft := 0, false
	c03Count(fns[0], func(n *c03Node) {})
	for _, fn := range fns {
		c03Count(fn, func(n *c03Node) {
			if n.kind == kTry {
				tries++
			}
		})
	}
	for _, f := range w.Fired {
		_ = f
		rc.Probe("host-fault-fired")
	}
	abruptLeft = len(w.Fired) > 0 || strings.Contains(src, "return 1") || strings.Contains(src, "break") || strings.Contains(src, "continue") || strings.Contains(src, "throw") || strings.Contains(src, "[][")
	if prefixTotal > 0 {
		rc.Probe("completed-try-prefix")
	}
	rc.Logf("src-hash=%x want=%s got=%s", hash64s(src), want, got)
	if tries > 0 && abruptLeft {
		fv := ""
		for _, f := range w.Fired {
			fv += fmt.Sprintf("%d.%d.%d,", f.ID, f.Occ, f.Kind)
		}
		rc.Sig = fmt.Sprintf("%x|%s", hash64s(skeleton(fns)), fv)
		rc.Sample = map[string]any{"script": src, "faults": ws.Faults, "choices": ws.Choices, "model_outcome": want.String()}
	}
	if capped {
		rc.Probe("vm-step-cap")
	}
	if got.Equal(want) {
		return
	}
	// first divergence → key
	key := "outcome"
	i := 0
	for i < len(got.Hist) && i < len(want.Hist) && got.Hist[i] == want.Hist[i] {
		i++
	}
	role := func(h []string) string {
		if i >= len(h) {
			return "end"
		}
		e := h[i]
		switch {
		case strings.HasPrefix(e, "i:"):
			var k int
			fmt.Sscanf(e, "i:%d", &k)
			return g.roles[k]
		case strings.HasPrefix(e, "op("):
			return "op"
		case strings.HasPrefix(e, "choose("):
			return "choose"
		case strings.HasPrefix(e, "s:\"c\""):
			return "catchvar"
		case strings.HasPrefix(e, "s:\"r\""):
			return "callret"
		}
		return "other"
	}
	if i < len(got.Hist) || i < len(want.Hist) {
		key = "history:vm-" + role(got.Hist) + "-vs-model-" + role(want.Hist)
	} else {
		key = "outcome:vm-" + got.Kind + "-vs-model-" + want.Kind
	}
	if capped {
		key = "vm-does-not-terminate"
	}
	if vmPanic != "" {
		key = vmPanic
	}
	rc.Decoded = map[string]any{"script": src, "faults": ws.Faults, "choices": ws.Choices, "optimizer_off": noOpt,
		"model": want.String(), "vm": got.String(), "first_divergence_index": i}
	rc.Fail("try-finally-semantics", key, "VM and reference model diverge at history index %d\n model: %s\n vm:    %s\nscript:\n%s", i, want, got, src)
}

func hash64s(s string) uint64 {
	var h uint64 = 14695981039346656037
	for i := 0; i < len(s); i++ {
		h ^= uint64(s[i])
		h *= 1099511628211
	}
	return h
}

// skeleton renders the shape of a nest without constants.
func skeleton(fns [][]*c03Node) string {
	var sb strings.Builder
	var walk func(ns []*c03Node)
	walk = func(ns []*c03Node) {
		for _, n := range ns {
			sb.WriteString([]string{"L", "O", "I", "F", "B", "C", "R", "T", "K", "Y", "X", "N", "W", "E", "A", "S"}[n.kind])
			if n.kind == kTry || n.kind == kIf || n.kind == kLoop || n.kind == kLoopIn {
				sb.WriteByte('{')
				walk(n.body)
				if n.els != nil {
					sb.WriteByte('|')
					walk(n.els)
				}
				if n.hasCatch {
					sb.WriteByte('c')
					walk(n.catch)
				}
				if n.hasFinally {
					sb.WriteByte('f')
					walk(n.finally)
				}
				sb.WriteByte('}')
			}
		}
	}
	for _, f := range fns {
		walk(f)
		sb.WriteByte(';')
	}
	return sb.String()
}

func init() {
	sim.Register(&sim.Engine{
		ID:    "C03",
		Level: "exploration",
		Rule: "each run draws a try/catch/finally nest (≤4 functions, ≤40 statements, depth ≤4; C-style and for-in loops, break/continue/return/throw of strings and error objects, re-throw of the catch variable, runtime errors, calls inside half-built literals; every function starting with 0–3 already completed try statements), a fault table (≤3 host-call failures keyed by (op id, occurrence)) and a host choice table; " +
			"the VM's log history and outcome must equal a reference interpreter with ECMAScript completion records reading the same tables. Non-trivial = the nest has a try statement and some abrupt exit (fired host fault, return, break, continue, throw, runtime error); " +
			"distinct = distinct (nest skeleton, fired-fault vector).",
		Assumptions: []string{
			"the reference model (≈120 lines) encodes the documented semantics: finally overrides only with an abrupt completion of its own; a failing host call is a throw",
			"stack overflow (the documented exception) is never generated; self-recursion only as `return f()` bounded by an activation counter (never a bare self-call as last statement: that is the tail-call path of C02)",
			"thrown strings surface as error Name \"\" and Message = the string; host Go errors likewise; *ugo.Error keeps its Name",
		},
		Real:      []string{"parser", "optimizer (2/3 of runs)", "compiler", "VM"},
		Simulated: []string{"host functions op/choose/log and their failures", "reference model of try/catch/finally"},
		Runs: func(tier string) int {
			if tier == "thorough" {
				return 40000000
			}
			return 400000
		},
		WallCap: func(tier string) float64 {
			if tier == "thorough" {
				return 1500
			}
			return 100
		},
		Run:          c03Run,
		ShrinkBudget: 2500,
	})
}
