package engines

// corpus are fixed scripts of varied shape used by the storage engines (C18,
// C04) next to generated ones. Each runs to completion in the default world.
var corpus = []string{
	// 0: constants of every kind
	`global (log, op, choose, call, trace, WID)
a := [0, 1, -1, 9223372036854775807, -9223372036854775807, 255u, 18446744073709551615u, 'a', 'ğ', '\x00']
b := [0.0, -0.0, 1.5, 1e308, -1e-308, 3.141592653589793, "", "plain", "\x00\xff\xfe", "日本語", true, false, undefined]
c := {k: [1, {n: "x"}], e: {}, s: ""}
log(a, b, c)
return [a, b, c, bytes(1, 2, 3), error("E")]
`,
	// 1: closures, variadic, recursion
	`global (log, op, choose, call, trace, WID)
mk := func(n) { c := n; return func(...d) { c += len(d); return c } }
f := mk(10)
var fib
fib = func(n) { if n < 2 { return n }; return fib(n-1) + fib(n-2) }
v := func(a, b, ...c) { return [a, b, c] }
log(f(), f(1, 2), fib(10), v(1, 2), v(1, 2, 3, 4), v(...[5, 6, 7]))
return call(f, 1, 2, 3)
`,
	// 2: modules, errors and traces
	`global (log, op, choose, call, trace, WID)
a := import("modA")
b := import("modB")
s := import("strings")
h := import("host")
log(a.inc(), b.twice(), a.get(), s.ToUpper("abc"), h.double(21), h.nzero, h.str, h.arr)
try {
	b.boom("from B")
} catch e {
	log(e, trace(e))
}
try {
	a.fail(1)
} catch e2 {
	log(e2, trace(e2))
} finally {
	log("fin")
}
h.arr[0] = 99
h.map.k2 = "new"
return [h.arr, h.map, s.Map(func(c) { return c + 1 }, "abc")]
`,
	// 3: control flow
	`global (log, op, choose, call, trace, WID)
param (x, ...rest)
out := []
for i := 0; i < 5; i++ {
	if i == 1 { continue }
	if i == 4 { break }
	try {
		if i == 2 { throw "two" }
		out = append(out, i)
	} catch e {
		out = append(out, e.Message)
	} finally {
		out = append(out, "f")
	}
}
for k, v in [7, 8] { out = append(out, k, v) }
for c in "hi" { out = append(out, c) }
y := x ? 1 : 2
z := x || "dflt"
return [out, y, z, rest, op(3)]
`,
	// 4: uncaught error inside a module function (trace through files)
	`global (log, op, choose, call, trace, WID)
b := import("modB")
f := func() { return b.boom("deep") }
g := func() { return f() }
log("before")
return g()
`,
	// 5: json / fmt / time
	`global (log, op, choose, call, trace, WID)
json := import("json")
fmt := import("fmt")
time := import("time")
enc := json.Marshal({a: [1, 2.5, "x", true, undefined]})
dec := json.Unmarshal(enc)
d := time.Second * 90
log(string(enc), dec, fmt.Sprintf("%d-%s-%v", 7, "s", [1]), string(d))
const ( A = iota; B; C = "c" )
return [A, B, C, dec.a[1]]
`,
}
