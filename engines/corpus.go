package engines

import (
	"fmt"
	"strings"
)

// corpus are fixed scripts of varied shape used by the storage engines (C18,
// C04) next to generated ones. Each runs to completion in the default world.
var corpus = []string{
	// 0: constants of every kind
	`global (log, op, choose, call, trace, WID)
a := [0, 1, -1, 9223372036854775807, -9223372036854775807, 255u, 18446744073709551615u, 'a', 'ğ', '\x00']
b := [0.0, -0.0, 1.5, 1e308, -1e-308, 3.141592653589793, "", "plain", "\x00\xff\xfe", "日本語", true, false, undefined]
c := {k: [1, {n: "x"}], e: {}, s: ""}
log(a, b, c)
return [a, b, c, bytes(1, 2, 3), error("E")]
`,
	// 1: closures, variadic, recursion
	`global (log, op, choose, call, trace, WID)
mk := func(n) { c := n; return func(...d) { c += len(d); return c } }
f := mk(10)
var fib
fib = func(n) { if n < 2 { return n }; return fib(n-1) + fib(n-2) }
v := func(a, b, ...c) { return [a, b, c] }
log(f(), f(1, 2), fib(10), v(1, 2), v(1, 2, 3, 4), v(...[5, 6, 7]))
return call(f, 1, 2, 3)
`,
	// 2: modules, errors and traces
	`global (log, op, choose, call, trace, WID)
a := import("modA")
b := import("modB")
s := import("strings")
h := import("host")
log(a.inc(), b.twice(), a.get(), s.ToUpper("abc"), h.double(21), h.nzero, h.str, h.arr)
try {
	b.boom("from B")
} catch e {
	log(e, trace(e))
}
try {
	a.fail(1)
} catch e2 {
	log(e2, trace(e2))
} finally {
	log("fin")
}
h.arr[0] = 99
h.map.k2 = "new"
return [h.arr, h.map, s.Map(func(c) { return c + 1 }, "abc")]
`,
	// 3: control flow
	`global (log, op, choose, call, trace, WID)
param (x, ...rest)
out := []
for i := 0; i < 5; i++ {
	if i == 1 { continue }
	if i == 4 { break }
	try {
		if i == 2 { throw "two" }
		out = append(out, i)
	} catch e {
		out = append(out, e.Message)
	} finally {
		out = append(out, "f")
	}
}
for k, v in [7, 8] { out = append(out, k, v) }
for c in "hi" { out = append(out, c) }
y := x ? 1 : 2
z := x || "dflt"
return [out, y, z, rest, op(3)]
`,
	// 4: uncaught error inside a module function (trace through files)
	`global (log, op, choose, call, trace, WID)
b := import("modB")
f := func() { return b.boom("deep") }
g := func() { return f() }
log("before")
return g()
`,
	// 5: json / fmt / time
	`global (log, op, choose, call, trace, WID)
json := import("json")
fmt := import("fmt")
time := import("time")
enc := json.Marshal({a: [1, 2.5, "x", true, undefined]})
dec := json.Unmarshal(enc)
d := time.Second * 90
log(string(enc), dec, fmt.Sprintf("%d-%s-%v", 7, "s", [1]), string(d))
const ( A = iota; B; C = "c" )
return [A, B, C, dec.a[1]]
`,
}

// edgeCorpus are programs at the size limits of the format: 255/256 locals,
// many parameters, many constants, long jumps, many free variables, a large
// string constant, wide literals, deep nesting.
var edgeCorpus = func() []string {
	var out []string
	pre := "global (log, op, choose, call, trace, WID)\n"
	locals := func(n int) string {
		var sb strings.Builder
		sb.WriteString(pre + "f := func(p0) {\n")
		for i := 1; i < n; i++ {
			fmt.Fprintf(&sb, "\tv%d := p0 + %d\n", i, i)
		}
		fmt.Fprintf(&sb, "\treturn v1 + v%d\n}\nreturn [f(1), call(f, 2)]\n", n-1)
		return sb.String()
	}
	out = append(out, locals(255), locals(256), locals(254))
	{ // 200 parameters, variadic
		var ps, as []string
		for i := 0; i < 200; i++ {
			ps = append(ps, fmt.Sprintf("a%d", i))
			as = append(as, fmt.Sprint(i))
		}
		out = append(out, pre+"f := func("+strings.Join(ps, ", ")+", ...r) { return [a0, a199, r] }\nreturn [f("+strings.Join(as, ", ")+"), f("+strings.Join(as, ", ")+", 7, 8)]\n")
	}
	{ // 700 distinct constants of mixed kinds
		var sb strings.Builder
		sb.WriteString(pre + "x := 0\ns := \"\"\n")
		for i := 0; i < 350; i++ {
			fmt.Fprintf(&sb, "x += %d\ns = \"k%d\"\n", 1000+i, i)
		}
		sb.WriteString("return [x, s, 1.5, 2.5e10, 'z', 77u]\n")
		out = append(out, sb.String())
	}
	{ // a jump over more than 65535 bytes of instructions
		var sb strings.Builder
		sb.WriteString(pre + "x := 0\nif choose(0) > 5 {\n")
		for i := 0; i < 9000; i++ {
			sb.WriteString("\tx = x + 1\n")
		}
		sb.WriteString("}\nfor i := 0; i < 3; i++ { x += 2 }\nreturn x\n")
		out = append(out, sb.String())
	}
	{ // 200 free variables
		var sb strings.Builder
		sb.WriteString(pre + "mk := func() {\n")
		var names []string
		for i := 0; i < 200; i++ {
			fmt.Fprintf(&sb, "\tc%d := %d\n", i, i)
			names = append(names, fmt.Sprintf("c%d", i))
		}
		sb.WriteString("\treturn func() { c0++; return " + strings.Join(names, " + ") + " }\n}\ng := mk()\nreturn [g(), g(), call(g)]\n")
		out = append(out, sb.String())
	}
	out = append(out, pre+"s := \""+strings.Repeat("0123456789abcdef", 5000)+"\"\nreturn [len(s), s[79990:]]\n")
	{ // wide literals and deep nesting
		var el []string
		for i := 0; i < 1500; i++ {
			el = append(el, fmt.Sprint(i))
		}
		out = append(out, pre+"a := ["+strings.Join(el, ", ")+"]\nm := {k: "+strings.Repeat("[", 60)+"1"+strings.Repeat("]", 60)+"}\nreturn [len(a), a[1499], m]\n")
	}
	{ // a source map with many entries and many lines
		var sb strings.Builder
		sb.WriteString(pre + "f := func(x) {\n")
		for i := 0; i < 400; i++ {
			sb.WriteString("\n\n\tx = x.v\n")
		}
		sb.WriteString("\treturn x\n}\nreturn f({v: {v: 1}})\n")
		out = append(out, sb.String())
	}
	// the small end: sources of size zero (file set entries without a single byte)
	out = append(out,
		"",
		"// nothing but a comment",
		pre+"e := import(\"modEmpty\")\nb := import(\"modBlank\")\nlog(e, b)\nreturn [e, b, import(\"modEmpty\")]\n",
		pre+"try { import(\"modEmpty\").x() } catch err { log(err.Message, trace(err)) }\nreturn 1\n")
	return out
}()
