// Package engines holds one scenario + oracle per claimed property.
package engines
