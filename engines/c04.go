package engines

import (
	"bytes"
	"encoding/json"
	"errors"
	"fmt"
	"io"
	"os"
	"os/exec"

	"github.com/ozanh/ugo"
	"github.com/ozanh/ugo/encoder"
	"verif/sim"
)

// C04 — encoding bytecode and decoding it again preserves behaviour.
//
// This is the fault-free control arm of the C18 storage simulation: encode →
// simulated writer (chunked; a writer error must surface as an Encode error) →
// medium without corruption → simulated reader (short reads) → decode with
// the same module map. Original and decoded programs then run in the same
// deterministic host world.

// chunkWriter accepts at most chunk bytes per Write (0 = all) and fails after failAt bytes (<0 never).
type chunkWriter struct {
	buf    bytes.Buffer
	chunk  int
	failAt int
	short  bool // report a short write without error
	// transient faults: the Write calls number failFrom..failTo-1 (from 0) accept nothing (or, with short, half) and the
	// calls after them succeed again
	transient        bool
	failFrom, failTo int
	calls            int
	faulted          bool
}

var errWriter = errors.New("injected write error")

func (w *chunkWriter) Write(p []byte) (int, error) {
	call := w.calls
	w.calls++
	if w.transient {
		if call >= w.failFrom && call < w.failTo && len(p) > 0 {
			w.faulted = true
			if w.short {
				w.buf.Write(p[:len(p)/2])
				return len(p) / 2, nil
			}
			return 0, errWriter
		}
		w.buf.Write(p)
		return len(p), nil
	}
	n := len(p)
	if w.failAt >= 0 && w.buf.Len()+n > w.failAt {
		n = w.failAt - w.buf.Len()
		if n < 0 {
			n = 0
		}
		w.buf.Write(p[:n])
		w.faulted = true
		if w.short {
			return n, nil
		}
		return n, errWriter
	}
	w.buf.Write(p)
	return n, nil
}

// c04Restart is what a freshly started process receives: bytes an earlier process stored, and the host world to run
// the decoded program in. The new process has never encoded anything.
type c04Restart struct {
	Enc  []byte
	Spec *sim.WorldSpec
	Args []int
}

// C04DecodeOnly is the body of `simcheck c04decode`: decode, run, print the outcome.
func C04DecodeOnly(in io.Reader, out io.Writer) error {
	var r c04Restart
	if err := json.NewDecoder(in).Decode(&r); err != nil {
		return err
	}
	mm := newModuleMap(fixedModules)
	res := map[string]string{}
	bc, err := encoder.DecodeBytecodeFrom(bytes.NewReader(r.Enc), mm)
	if err != nil {
		res["decode_error"] = err.Error()
	} else {
		pool := &sim.SimPool{Always: 1}
		restore := pool.Install()
		sc := &sim.StepCounter{Cap: 100000}
		rh := sc.Install()
		resetHostStates()
		o := c08RunOne(bc, sim.NewWorld(r.Spec, nil), []ugo.Object{ugo.Int(r.Args[0]), ugo.String("arg")})
		rh()
		restore()
		res["outcome"] = o.out.String()
		res["trace"] = o.trace
	}
	return json.NewEncoder(out).Encode(res)
}

func c04Run(rc *sim.RunCtx) {
	t := rc.T
	prog := rc.Index
	var src string
	var mods []srcModule
	if prog < len(corpus) {
		src = corpus[prog]
	} else if prog < len(corpus)+len(edgeCorpus) {
		src = edgeCorpus[prog-len(corpus)]
		rc.Probe("size-edge-program")
	} else {
		g := newGen(t, genConfig{Modules: true, Hosts: true, Consts: true, HostState: true, Params: true, MaxStmts: 12})
		src, mods = g.program()
	}
	mm := newModuleMap(append(append([]srcModule{}, fixedModules...), mods...))
	noOpt := t.Bool(1, 3)
	bc, err := compile(src, mm, noOpt, 0)
	if err != nil {
		rc.Discard = "compile-error"
		rc.Logf("compile: %v", err)
		return
	}
	ws := sim.DrawWorldSpec(t, "w0", 4, 3, 2, []sim.FaultKind{sim.FGoErr, sim.FUgoErr}, 3, 16)
	args := []ugo.Object{ugo.Int(t.Draw(3)), ugo.String("arg")}

	var enc []byte
	{
		// writer faults first: an error or short write must surface
		var probe bytes.Buffer
		if err := encoder.EncodeBytecodeTo(bc, &probe); err != nil {
			rc.Decoded = map[string]any{"script": src}
			rc.Fail("encode-failed", "encode-failed", "EncodeBytecodeTo failed on a compiled program: %v\n%s", err, src)
			return
		}
		if t.Bool(1, 3) {
			k := t.Draw(probe.Len())
			cw := &chunkWriter{failAt: k, short: t.Bool(1, 2)}
			err := encoder.EncodeBytecodeTo(bc, cw)
			rc.Fault("writer-error")
			if err == nil {
				rc.Decoded = map[string]any{"script": src, "writer_fails_after": k}
				rc.Fail("writer-error-lost", "writer-error-lost", "the writer accepted only %d of %d bytes (short=%v) but Encode reported success", k, probe.Len(), cw.short)
				return
			}
		} else if t.Bool(1, 2) {
			// a transient fault: some Write calls in a row fail (or come up short), later ones succeed again
			from := t.Draw(7)
			cw := &chunkWriter{transient: true, failFrom: from, failTo: from + 1 + t.Draw(3), short: t.Bool(1, 3)}
			err := encoder.EncodeBytecodeTo(bc, cw)
			if cw.faulted {
				rc.Fault("writer-error-transient")
				if err == nil {
					rc.Decoded = map[string]any{"script": src, "write_calls_failing": []int{cw.failFrom, cw.failTo}, "short": cw.short}
					rc.Fail("writer-error-lost", "writer-error-lost:transient", "Write calls %d..%d of %d failed (short=%v) but Encode reported success; %d bytes reached the medium, a complete encoding has %d", cw.failFrom, cw.failTo-1, cw.calls, cw.short, cw.buf.Len(), probe.Len())
					return
				}
			} else if err != nil || !bytes.Equal(cw.buf.Bytes(), probe.Bytes()) {
				// (two encodings of one program may order map entries differently; only the length is comparable)
				if err != nil || cw.buf.Len() != probe.Len() {
					rc.Decoded = map[string]any{"script": src}
					rc.Fail("encode-failed", "encode-differs-without-fault", "encoding through a writer whose faulty calls were never reached: err=%v, %d bytes instead of %d", err, cw.buf.Len(), probe.Len())
					return
				}
			}
		}
		enc = probe.Bytes()
	}
	chunk := 1 + t.Draw(64)
	// in a third of the runs both generations travel through one in-memory pipe (a bytes.Buffer that is written,
	// read, written again and read again without a Reset in between)
	var pipe bytes.Buffer
	pipeMode := t.Bool(1, 3)
	var dec *ugo.Bytecode
	if pipeMode {
		pipe.Write(enc)
		dec, err = encoder.DecodeBytecodeFrom(&pipe, mm)
		rc.Fault("pipe-reused-for-next-generation")
	} else {
		dec, err = encoder.DecodeBytecodeFrom(&faultyReader{data: enc, chunk: chunk, failAt: -1}, mm)
		rc.Fault("short-reads")
	}
	if err != nil {
		rc.Decoded = map[string]any{"script": src}
		rc.Fail("decode-failed", "decode-failed", "decoding what the encoder produced failed: %v\n%s", err, src)
		return
	}
	// second generation: encode(decode(x)) decoded again
	buf2 := &bytes.Buffer{}
	if pipeMode {
		buf2 = &pipe
	}
	if err := encoder.EncodeBytecodeTo(dec, buf2); err != nil {
		rc.Decoded = map[string]any{"script": src}
		rc.Fail("encode-failed", "re-encode-failed", "re-encoding the decoded program failed: %v", err)
		return
	}
	dec2, err := encoder.DecodeBytecodeFrom(buf2, mm)
	if err != nil {
		rc.Decoded = map[string]any{"script": src, "one_buffer_for_both_generations": pipeMode}
		rc.Fail("decode-failed", "re-decode-failed", "decoding the re-encoded program failed (one buffer carried both generations: %v): %v", pipeMode, err)
		return
	}

	// history of the encoder: bytes handed out by an earlier MarshalBinary stay valid while later programs are encoded
	if m1, err := (*encoder.Bytecode)(bc).MarshalBinary(); err == nil {
		snapshot := append([]byte(nil), m1...)
		_, _ = (*encoder.Bytecode)(dec).MarshalBinary()
		_, _ = (*encoder.Bytecode)(dec2).MarshalBinary()
		rc.Fault("later-encode-after-marshal")
		if !bytes.Equal(m1, snapshot) {
			rc.Decoded = map[string]any{"script": src}
			rc.Fail("encoded-bytes-overwritten", "marshal-result-overwritten", "the bytes returned by MarshalBinary changed while two other programs were encoded afterwards")
			return
		}
	}

	pool := &sim.SimPool{T: t, Always: 1}
	restore := pool.Install()
	defer restore()
	sc := &sim.StepCounter{Cap: 100000}
	restoreHook := sc.Install()
	defer restoreHook()
	run := func(b *ugo.Bytecode) c08Result {
		sc.Steps = 0
		resetHostStates()
		return c08RunOne(b, sim.NewWorld(ws, nil), args)
	}
	orig := run(bc)
	orig2 := run(bc)
	if !orig.out.Equal(orig2.out) || orig.trace != orig2.trace {
		rc.Discard = "workload-not-self-deterministic"
		return
	}
	if sc.Capped {
		rc.Discard = "workload-too-long"
		return
	}
	rc.Steps = sc.Steps
	r1 := run(dec)
	r2 := run(dec2)
	rc.Logf("src=%x orig=%s", hash64s(src), orig.out)
	rc.Sig = fmt.Sprintf("%x", hash64s(src))
	if rc.Index%41 == 0 {
		rc.Sample = map[string]any{"script": src, "encoded_len": len(enc), "reader_chunk": chunk, "outcome": orig.out.String()}
	}
	// crash and restart: a process that was started afresh and has only ever decoded must read the stored bytes
	if rc.Index%97 == 3 || rc.T.IsReplay() && os.Getenv("VERIF_C04_RESTART") != "" {
		if self, err := os.Executable(); err == nil {
			in, _ := json.Marshal(c04Restart{Enc: enc, Spec: ws, Args: []int{int(args[0].(ugo.Int))}})
			cmd := exec.Command(self, "c04decode")
			cmd.Stdin = bytes.NewReader(in)
			var so, se bytes.Buffer
			cmd.Stdout, cmd.Stderr = &so, &se
			rerr := cmd.Run()
			var got map[string]string
			json.Unmarshal(so.Bytes(), &got)
			rc.Fault("restart-then-decode")
			want := orig.out.String()
			switch {
			case rerr != nil || got == nil:
				rc.Decoded = map[string]any{"script": src}
				rc.Fail("restart-decode-crashed", "restart:crashed", "a freshly started process failed while decoding and running the stored program: %v\n%s", rerr, truncateStr(se.String(), 1500))
				return
			case got["decode_error"] != "":
				rc.Decoded = map[string]any{"script": src}
				rc.Fail("decode-failed", "restart:decode-failed", "a freshly started process (which never encoded anything) cannot decode what this process encoded: %s\n%s", got["decode_error"], src)
				return
			case got["outcome"] != want || got["trace"] != orig.trace:
				rc.Decoded = map[string]any{"script": src, "original": want, "after_restart": got["outcome"]}
				rc.Fail("round-trip-changes-behaviour", "restart:behaviour", "the program decoded by a freshly started process behaves differently\n original:      %s trace=%s\n after restart: %s trace=%s\nscript:\n%s", want, orig.trace, got["outcome"], got["trace"], src)
				return
			}
		}
	}
	// two tenants: the same script compiled for a second tenant whose builtin module "host" has other contents under
	// the same name; its program is encoded after, and decoded alternately with, the first tenant's
	if t.Bool(1, 3) {
		mm2 := newTenantModuleMap(mm)
		bc2, err := compile(src, mm2, noOpt, 0)
		if err == nil {
			want := run(bc2)
			var e2 bytes.Buffer
			err1 := encoder.EncodeBytecodeTo(bc2, &e2)
			_, errA := encoder.DecodeBytecodeFrom(bytes.NewReader(enc), mm)
			d2, err2 := encoder.DecodeBytecodeFrom(bytes.NewReader(e2.Bytes()), mm2)
			dA, errB := encoder.DecodeBytecodeFrom(bytes.NewReader(enc), mm)
			rc.Fault("second-tenant-same-module-name")
			if err1 != nil || err2 != nil || errA != nil || errB != nil {
				rc.Decoded = map[string]any{"script": src}
				rc.Fail("decode-failed", "tenant:decode-failed", "two programs compiled against different builtin modules of the same name: encode/decode failed (encode second: %v, decode second: %v, decode first: %v / %v)\n%s", err1, err2, errA, errB, src)
				return
			}
			got := run(d2)
			gotA := run(dA)
			if !got.out.Equal(want.out) || got.trace != want.trace {
				rc.Decoded = map[string]any{"script": src, "original": want.out.String(), "decoded": got.out.String()}
				rc.Fail("round-trip-changes-behaviour", "tenant:second", "the second tenant's decoded program behaves differently from its original\n original: %s\n decoded:  %s\nscript:\n%s", want.out, got.out, src)
				return
			}
			if !gotA.out.Equal(orig.out) || gotA.trace != orig.trace {
				rc.Decoded = map[string]any{"script": src, "original": orig.out.String(), "decoded": gotA.out.String()}
				rc.Fail("round-trip-changes-behaviour", "tenant:first", "the first tenant's program, decoded again after the second tenant's, behaves differently from its original\n original: %s\n decoded:  %s\nscript:\n%s", orig.out, gotA.out, src)
				return
			}
		}
	}
	for gen, r := range []c08Result{r1, r2} {
		if !r.out.Equal(orig.out) || r.trace != orig.trace {
			what := "outcome"
			if r.out.Kind == orig.out.Kind && r.out.Value == orig.out.Value {
				what = "history"
				if r.trace != orig.trace {
					what = "trace"
				}
			}
			rc.Decoded = map[string]any{"script": src, "optimizer_off": noOpt, "generation": gen + 1, "original": orig.out.String() + " trace=" + orig.trace, "decoded": r.out.String() + " trace=" + r.trace}
			rc.Fail("round-trip-changes-behaviour", "round-trip:"+what, "decoded program (generation %d) behaves differently\n original: %s trace=%s\n decoded:  %s trace=%s\nscript:\n%s",
				gen+1, orig.out, orig.trace, r.out, r.trace, src)
			return
		}
	}
}

func init() {
	sim.Register(&sim.Engine{
		ID:    "C04",
		Level: "exploration",
		Rule: "fault-free control arm of the storage simulation: fixed corpus + generated scripts (constants of every kind incl. extreme ints, NaN-free special floats, -0.0, non-UTF-8 strings, closures, imports of generated/fixed source modules and builtin modules) are encoded through a simulated writer " +
			"(1/3 of runs first check that a failing or short writer makes Encode fail), read back through a short-read reader, decoded, re-encoded and decoded again; original, first- and second-generation programs run in the same host world and must agree on outcome, history and resolved error trace. " +
			"About 1 run in 100 also hands the stored bytes to a freshly started process that has never encoded anything (crash and restart), which must decode and run them to the same outcome. Non-trivial = compiled and self-deterministic; distinct = distinct scripts.",
		Assumptions: []string{
			"Encode performs one Write and Decode one io.Copy, so the stream dimension is shallow; detection power comes mostly from the workload",
			"replay re-encodes: the order of map entries in the encoded bytes depends on Go map iteration; a violation that depends on that order may need several replays",
		},
		Real:      []string{"encoder.EncodeBytecodeTo", "encoder.DecodeBytecodeFrom", "fixObjects", "compiler", "VM"},
		Simulated: []string{"writer (errors, short writes)", "reader (short reads)", "host world"},
		Runs: func(tier string) int {
			if tier == "thorough" {
				return 8000000
			}
			return 60000
		},
		WallCap: func(tier string) float64 {
			if tier == "thorough" {
				return 1500
			}
			return 100
		},
		Run:          c04Run,
		ShrinkBudget: 1200,
	})
}
