package engines

import (
	"fmt"
	"strings"

	"verif/sim"
)

// genStorageProgram returns the script (and extra source modules) number prog
// of the storage engines: the fixed corpus first, then generated scripts.
func genStorageProgram(t *sim.Tape, prog int) (string, []srcModule) {
	if prog < len(corpus) {
		return corpus[prog], nil
	}
	if prog < len(corpus)+4 {
		// a few size-edge programs (the small ones: the single-fault space is enumerated per program)
		return edgeCorpus[[]int{0, 1, 3, 6}[prog-len(corpus)]], nil
	}
	g := newGen(t, genConfig{Modules: true, Hosts: true, Consts: true})
	return g.program()
}

var _ = fmt.Sprint
var _ = strings.Repeat
