package engines

import (
	"context"
	"errors"
	"fmt"
	"strings"

	"github.com/ozanh/ugo"
	"verif/sim"
)

// C09 — Abort and context cancellation are never lost.
//
// Simulator-owned: the position of every Abort()/cancel() relative to every
// protocol point of Run, Invoke, pool acquire/release and Eval.run; which
// child VM the pool hands out.

type c09Shape struct {
	name      string
	src       string
	finite    bool
	childPool []bool // pooled flag of the k-th call()
	recover   bool   // the VM runs with SetRecover(true) (an Eval session always does)
}

var c09Shapes = []c09Shape{
	{"top-loop", "x := 0\nfor { x++ }\n", false, nil, false},
	{"callee-loop", "f := func() { x := 0; for { x++ } }\nf()\n", false, nil, false},
	{"child-loop", "f := func() { x := 0; for { x++ } }\ncall(f)\n", false, nil, false},
	{"child-of-child", "g := func() { x := 0; for { x++ } }\nf := func() { return call(g) }\ncall(f)\n", false, nil, false},
	{"child-catch-retry", "f := func() { x := 0; for { x++ } }\nfor { try { call(f) } catch e { log(e) } }\n", false, nil, false},
	{"strings-map", "s := import(\"strings\")\ns.Map(func(c) { x := 0; for { x++ } }, \"abc\")\n", false, nil, false},
	{"host-loop", "f := func(i) { return i + 1 }\ncallmany(f, 40)\nx := 0\nfor { x++ }\n", false, nil, false},
	{"host-loop-nested", "g := func(i) { return i + 1 }\nf := func(i) { return call(g, i) }\ncallmany(f, 20)\nx := 0\nfor { x++ }\n", false, nil, false},
	{"tail-recursion", "var f\nf = func(n) { return f(n + 1) }\nf(0)\n", false, nil, false},
	{"selector-tail-recursion", "o := {}\no.spin = func(self, n) { return self.spin(self, n + 1) }\no.spin(o, 0)\n", false, nil, false},
	{"iterator-loop", "a := [1, 2, 3]\nx := 0\nfor { for k, v in a { x += v } }\n", false, nil, false},
	{"callrep-second-call-loops", "n := 0\nf := func() { n++; if n < 2 { return n }; x := 0; for { x++ } }\ncallrep(f, 3)\n", false, nil, false},
	{"dispatcher-ignoring-errors", "f := func(i) { x := 0; for { x++ } }\ncallall(f, 4)\nx := 0\nfor { x++ }\n", false, nil, false},
	{"nested-tries-loop", "x := 0\nfor { try { try { x++ } finally { x++ } } catch e { x = 0 } }\n", false, nil, false},
	{"finite", "f := func(i) { return i + 1 }\nx := 0\nfor i := 0; i < 6; i++ { x = call(f, x) }\nreturn x\n", true, nil, false},
	// loops that spend their time in recovered Go panics: every recovery re-enters the interpreter loop
	{"recovered-host-panic-loop", "for { try { boom() } catch e { } }\n", false, nil, true},
	{"recovered-operator-panic-loop", "z := 0\nfor { try { z = 1 % z } catch e { z = 0 } }\n", false, nil, true},
	// a function on a child VM that keeps calling back (grandchild VMs taken from and given back to the root's pool all
	// the time) and shrugs off every error of those calls: only its own VM's flag ends it
	{"child-retries-grandchildren", "g := func() { return 1 }\nf := func() { for { try { call(g) } catch e { } } }\ncall(f)\n", false, nil, false},
	{"recovered-panic-in-child-loop", "f := func() { boom() }\nfor { try { call(f) } catch e { } }\n", false, nil, true},
}

const c09Bound = 256 // further VM instructions allowed after the last Abort returned

var c09PointNames = map[int]string{
	ugo.VerifLoop: "loop", ugo.VerifRunEnter: "run-enter", ugo.VerifRunLocked: "run-locked", ugo.VerifRunReset: "run-reset", ugo.VerifRunExit: "run-exit",
	ugo.VerifAbortEnter: "abort-enter", ugo.VerifAbortMid: "abort-mid", ugo.VerifAbortExit: "abort-exit", ugo.VerifInvokeChecked: "invoke-checked",
	ugo.VerifPoolLock: "pool-lock", ugo.VerifPoolLocked: "pool-locked", ugo.VerifPoolUnlocked: "pool-unlocked",
	ugo.VerifEvalSelect1: "eval-select1", ugo.VerifEvalBeforeGo: "eval-before-go", ugo.VerifEvalGoStart: "eval-go-start", ugo.VerifEvalGoClosing: "eval-go-closing",
	ugo.VerifEvalGoEnd: "eval-go-end", ugo.VerifEvalSelect2: "eval-select2", ugo.VerifEvalCancelSeen: "eval-cancel-seen", ugo.VerifEvalWaitDone: "eval-wait-done", ugo.VerifEvalReturn: "eval-return",
	sim.PDone: "done", sim.PCancel: "cancel", sim.PUser: "user", sim.PStartWait: "start-wait", 0: "start",
}

func pointName(p int) string {
	if n, ok := c09PointNames[p]; ok {
		return n
	}
	return fmt.Sprint(p)
}

// boom(): a Go callback that panics.
var c09Boom = &ugo.Function{Name: "boom", Value: func(args ...ugo.Object) (ugo.Object, error) { panic("boom") }}

// callmany(f, n): a Go callback that invokes a script function repeatedly on
// child VMs and stops at the first error, as a well-behaved host loop does.
func c09CallMany(w *sim.World, s *sim.Sched) *ugo.Function {
	return &ugo.Function{Name: "callmany", ValueEx: func(c ugo.Call) (ugo.Object, error) {
		n := int(c.Get(1).(ugo.Int))
		var last ugo.Object = ugo.Undefined
		for i := 0; i < n; i++ {
			pooled := false
			if k := len(w.CallErrs); k < len(w.Spec.Pooled) {
				pooled = w.Spec.Pooled[k]
			}
			inv := ugo.NewInvoker(c.VM(), c.Get(0))
			if pooled {
				inv.Acquire()
			}
			ret, err := inv.Invoke(ugo.Int(i))
			if pooled {
				inv.Release()
			}
			if err != nil {
				w.CallErrs = append(w.CallErrs, sim.CanonErr(err))
				return nil, err
			}
			w.CallErrs = append(w.CallErrs, "ok")
			last = ret
		}
		return last, nil
	}}
}

// the follow-up uses pooled and non-pooled child VMs and strings.Map (which acquires from the pool):
// a child VM recycled from the aborted run must be as good as a new one
// callall(f, n): a Go callback that invokes a script function n times on ONE Invoker handle and ignores errors
// (a dispatcher that reports failures per item). After an abort every further Invoke must fail at once.
func c09CallAll(w *sim.World) *ugo.Function {
	return &ugo.Function{Name: "callall", ValueEx: func(c ugo.Call) (ugo.Object, error) {
		n := int(c.Get(1).(ugo.Int))
		pooled := false
		if k := len(w.CallErrs); k < len(w.Spec.Pooled) {
			pooled = w.Spec.Pooled[k]
		}
		inv := ugo.NewInvoker(c.VM(), c.Get(0))
		if pooled {
			inv.Acquire()
			defer inv.Release()
		}
		failed := 0
		for i := 0; i < n; i++ {
			if _, err := inv.Invoke(ugo.Int(i)); err != nil {
				failed++
			}
		}
		w.CallErrs = append(w.CallErrs, fmt.Sprint("failed=", failed))
		return ugo.Int(failed), nil
	}}
}

const c09Followup = sim.Prelude + "a := 0\nfor i := 0; i < 5; i++ { a += i }\nf := func(x) { return x * 2 }\ns := import(\"strings\")\nreturn [a, call(f, 21), call(f, 4), call(f, 5), s.Map(func(c) { return c + 1 }, \"ab\")]\n"
const c09FollowupWant = "value=[i:10,i:42,i:8,i:10,s:\"bc\"] hist=[]"

// enumerated placement: run R alone until its k-th reported event, then the
// aborter until its j-th event, then R for m events, then the aborter to the
// end, then R.
type c09Placement struct{ k, j, m int }

func c09Sizes(tier string) (enum, random, eval int) {
	if tier == "thorough" {
		return len(c09Shapes) * 2 * 60 * 7 * 3, 2500000, 800000
	}
	return len(c09Shapes) * 2 * 60 * 7 * 3, 40000, 30000
}

func c09Run(rc *sim.RunCtx) {
	enum, random, _ := c09Sizes(rc.Tier)
	if rc.Arm == "race" {
		// the race arm re-executes a spread of all three kinds
		switch rc.Index % 3 {
		case 0:
			rc.Index = (rc.Index / 3 * 37) % enum
		case 1:
			rc.Index = enum + rc.Index/3
		default:
			rc.Index = enum + random + rc.Index/3
		}
	}
	switch {
	case rc.Index < enum:
		i := rc.Index
		m := []int{1, 3, 9}[i%3]
		i /= 3
		j := i % 7
		i /= 7
		k := i % 60
		i /= 60
		pooled := i%2 == 1
		i /= 2
		c09VM(rc, i%len(c09Shapes), pooled, &c09Placement{k, j, m})
	case rc.Index < enum+random:
		c09VM(rc, -1, false, nil)
	default:
		c09Eval(rc)
	}
}

// c09VM is scenario A: one runner thread, 1–2 aborter threads.
func c09VM(rc *sim.RunCtx, shapeIdx int, pooledAll bool, pl *c09Placement) {
	t := rc.T
	if shapeIdx < 0 {
		shapeIdx = t.Draw(len(c09Shapes))
	}
	// 1 random run in 30: the pool locks may be contended for real (see Sched.Contend); one Abort, placed while the
	// runner holds a pool lock for the n-th time, on a shape whose callbacks call back themselves
	contend := pl == nil && t.Bool(1, 30)
	if contend {
		nested := []string{"child-retries-grandchildren", "child-of-child", "host-loop-nested", "strings-map", "child-catch-retry", "callrep-second-call-loops"}
		want := nested[t.Pick(3, 1, 1, 1, 1, 1)]
		for i := range c09Shapes {
			if c09Shapes[i].name == want {
				shapeIdx = i
			}
		}
	}
	shape := c09Shapes[shapeIdx]
	ws := &sim.WorldSpec{Name: "w"}
	for i := 0; i < 64; i++ {
		if pl != nil {
			ws.Pooled = append(ws.Pooled, pooledAll)
		} else {
			ws.Pooled = append(ws.Pooled, t.Bool(1, 2))
		}
		ws.Repeat = append(ws.Repeat, 0)
	}
	nAborters, nAborts := 1, 1
	if pl == nil && !contend {
		nAborters = 1 + t.Draw(2)
		nAborts = 1 + t.Draw(3)
	}
	holdTarget, holds := 0, 0
	if contend {
		holdTarget = 1 + t.Draw(12)
	}
	mm := newModuleMap(nil)
	bc, err := compile(sim.PreludeCall+"global (callmany, callall, boom)\n"+shape.src, mm, false, 0)
	if err != nil {
		rc.Discard = "compile-error"
		rc.Logf("compile: %v", err)
		return
	}
	bc2, err := compile(c09Followup, mm, false, 0)
	if err != nil {
		rc.Discard = "compile-error"
		return
	}

	s := sim.NewSched(t)
	s.Contend = contend
	pool := &sim.SimPool{T: t}
	if pl != nil {
		pool.Always = 2
	}
	restorePool := pool.Install()
	defer restorePool()
	w := sim.NewWorld(ws, nil)
	w.Globals["callmany"] = c09CallMany(w, s)
	w.Globals["callall"] = c09CallAll(w)
	w.Globals["boom"] = c09Boom
	vm := ugo.NewVM(bc).SetRecover(shape.recover)

	var runErr error
	var runRet ugo.Object
	var follow sim.Outcome
	runner := s.Go("runner", func() {
		runRet, runErr = vm.Run(w.Globals)
		if s.Killed() {
			return
		}
		// an aborted VM runs later scripts normally (after the aborters are finished)
		s.Point(sim.PUser)
		if s.Killed() {
			return
		}
		w2 := sim.NewWorld(&sim.WorldSpec{Name: "w2", Pooled: []bool{true, false, true}, Repeat: []int{0, 0, 0}}, nil)
		vm.SetBytecode(bc2)
		r2, e2 := vm.Run(w2.Globals)
		follow = sim.MakeOutcome(r2, e2, w2.Hist)
	})
	var aborters []*sim.SimThread
	for a := 0; a < nAborters; a++ {
		aborters = append(aborters, s.Go(fmt.Sprintf("aborter%d", a), func() {
			s.Point(sim.PStartWait)
			for i := 0; i < nAborts; i++ {
				vm.Abort()
			}
		}))
	}
	if pl == nil {
		mode := t.Draw(4)
		s.Quantum = func(t *sim.Tape) int32 {
			switch mode {
			case 0:
				return 1
			case 1:
				return int32(1 + t.Draw(4))
			case 2:
				return int32(1 + t.Draw(32))
			}
			return int32(1 + t.Draw(3)*t.Draw(3))
		}
	}
	started := false
	abortersDone := false
	var baseline int64
	lost := false
	runnerEvents := 0
	aborterEvents := 0
	phaseM := 0
	lastRunnerPoint, lastRunnerPointAtAbortEnd := 0, 0
	followupPhase := false
	s.Enabled = func(s *sim.Sched, th *sim.SimThread) bool {
		if th.Point() == sim.PStartWait {
			if contend {
				// while the runner is parked inside a pool critical section for the n-th time (or, should it never get
				// there, after a while)
				return (runner.Point() == ugo.VerifPoolLocked && holds >= holdTarget) || runner.Loops() > 4000 || runner.Done()
			}
			// "once Run has been entered": the VM has executed its first instruction
			return started || runner.Loops() > 0
		}
		if th == runner && th.Point() == sim.PUser {
			return abortersDone // the follow-up run starts after the last Abort returned
		}
		if contend && th == runner && th.Point() == ugo.VerifPoolLocked && aborters[0].Point() != sim.PStartWait && !aborters[0].Done() && s.Contended == 0 {
			// the runner stays parked inside its critical section until the Abort that was started there has met the
			// lock (or has returned without needing it)
			return false
		}
		return true
	}
	s.OnEvent = func(s *sim.Sched, th *sim.SimThread, point, obj int) {
		if th == runner {
			runnerEvents++
			if point == ugo.VerifLoop {
				started = true
			} else {
				lastRunnerPoint = point
			}
			if point == ugo.VerifPoolLocked {
				holds++
			}
			if point == sim.PUser {
				followupPhase = true
			}
		} else {
			aborterEvents++
		}
		if !abortersDone {
			all := true
			for _, a := range aborters {
				if !a.Done() {
					all = false
				}
			}
			if all {
				abortersDone = true
				baseline = s.TotalLoops()
				lastRunnerPointAtAbortEnd = lastRunnerPoint
			}
		}
		if abortersDone && !followupPhase && !runner.Done() && s.TotalLoops()-baseline > c09Bound {
			lost = true
			s.Kill()
		}
	}
	if pl != nil {
		s.Choose = func(s *sim.Sched, cand []*sim.SimThread) int {
			want := runner
			switch {
			case runnerEvents < 2+pl.k:
				want = runner
			case aborterEvents < pl.j:
				want = aborters[0]
			case phaseM < pl.m:
				phaseM++
				want = runner
			default:
				want = aborters[0]
			}
			for i, c := range cand {
				if c == want {
					return i
				}
			}
			return 0
		}
	}
	if err := s.Run(); err != nil {
		rc.Fatal = true
		rc.Fail("hang", "hang:vm:"+shape.name, "a simulated thread blocked for real (not at a hook point): %v\nschedule: %s", err, c09TraceString(s, 120))
		return
	}
	rc.Steps = s.TotalLoops()
	if s.Contend && s.Contended > 0 {
		rc.Fault("pool-lock-contended")
		if s.Degraded() {
			// the contender waited for the lock, as it should: from then on the interleaving was not the tape's
			rc.Discard = "contended-pool-lock-waited-for"
			return
		}
	}
	if s.Degraded() {
		rc.Degraded = true
		rc.Probe("degraded-schedule(un-modelled blocking met)")
	}
	rc.Logf("shape=%s trace=%016x switches=%d err=%v follow=%s recycled=%d", shape.name, s.TraceHash(), s.Switches, runErr != nil, follow, pool.Recycled)
	if pool.Recycled > 0 {
		rc.Probe("child-vm-recycled")
	}
	// probes: where the aborts landed
	for _, e := range s.Trace {
		if e.Thread != runner.ID && e.Point == ugo.VerifAbortMid {
			rc.Fault("abort")
		}
	}
	rc.Probe("abort-done-while-runner-at:" + pointName(lastRunnerPointAtAbortEnd))
	placement := ""
	if pl != nil {
		placement = fmt.Sprintf("k=%d j=%d m=%d pooled=%v", pl.k, pl.j, pl.m, pooledAll)
		rc.Sig = fmt.Sprintf("enum %s %s", shape.name, placement)
	} else {
		rc.Sig = fmt.Sprintf("%s %016x", shape.name, s.SwitchHash())
	}
	if rc.Index%97 == 0 || pl == nil && rc.Index%501 == 0 {
		rc.Sample = map[string]any{"scenario": "VM", "shape": shape.name, "script": shape.src, "placement": placement, "aborters": nAborters, "aborts_each": nAborts,
			"events": len(s.Trace), "context_switches": s.Switches, "schedule_prefix": c09TraceString(s, 60)}
	}
	decoded := map[string]any{"scenario": "VM", "shape": shape.name, "script": shape.src, "aborters": nAborters, "aborts_each": nAborts, "placement": placement, "schedule": c09TraceString(s, 400)}
	switch {
	case s.Deadlock != "":
		rc.Decoded = decoded
		rc.Fail("deadlock", "deadlock:"+shape.name, "no simulated thread is runnable: %s", s.Deadlock)
	case lost || s.Overrun:
		rc.Decoded = decoded
		rc.Fail("lost-abort", "lost-abort:runner-at-"+pointName(lastRunnerPointAtAbortEnd),
			"shape %s: Run did not return within %d instructions after the last Abort() had returned (runner was last seen at %s when the aborts ended)\nschedule: %s",
			shape.name, c09Bound, pointName(lastRunnerPointAtAbortEnd), c09TraceString(s, 120))
	case !shape.finite && !errors.Is(runErr, ugo.ErrVMAborted):
		rc.Decoded = decoded
		rc.Fail("wrong-result", "not-aborted-error:"+shape.name, "shape %s never terminates by itself, yet Run returned value=%v err=%v instead of ErrVMAborted", shape.name, runRet, runErr)
	case shape.finite && runErr != nil && !errors.Is(runErr, ugo.ErrVMAborted):
		rc.Decoded = decoded
		rc.Fail("wrong-result", "finite-wrong-error", "finite shape returned err=%v", runErr)
	case follow.String() != c09FollowupWant:
		rc.Decoded = decoded
		rc.Fail("aborted-vm-unusable", "followup-run-differs", "after the aborted run the same VM ran the fixed script to %s, want %s", follow, c09FollowupWant)
	}
}

func c09TraceString(s *sim.Sched, max int) string {
	var sb strings.Builder
	n := 0
	loops := 0
	last := -1
	flush := func() {
		if loops > 0 {
			fmt.Fprintf(&sb, "t%d:loop×%d ", last, loops)
			loops = 0
		}
	}
	for _, e := range s.Trace {
		if e.Point == ugo.VerifLoop && e.Thread == last {
			loops++
			continue
		}
		flush()
		if n >= max {
			sb.WriteString("…")
			break
		}
		n++
		last = e.Thread
		if e.Point == ugo.VerifLoop {
			loops = 1
			continue
		}
		fmt.Fprintf(&sb, "t%d:%s", e.Thread, pointName(e.Point))
		if e.Obj != 0 {
			fmt.Fprintf(&sb, "#%d", e.Obj)
		}
		sb.WriteByte(' ')
	}
	flush()
	return sb.String()
}

// c09Eval is scenario B: Eval.Run under a context cancelled at a tape-chosen point.
func c09Eval(rc *sim.RunCtx) {
	t := rc.T
	shapeIdx := t.Draw(len(c09Shapes))
	shape := c09Shapes[shapeIdx]
	ws := &sim.WorldSpec{Name: "w"}
	for i := 0; i < 64; i++ {
		ws.Pooled = append(ws.Pooled, t.Bool(1, 2))
		ws.Repeat = append(ws.Repeat, 0)
	}
	s := sim.NewSched(t)
	pool := &sim.SimPool{T: t}
	restorePool := pool.Install()
	defer restorePool()
	w := sim.NewWorld(ws, nil)
	w.Globals["callmany"] = c09CallMany(w, s)
	w.Globals["callall"] = c09CallAll(w)
	w.Globals["boom"] = c09Boom
	mm := newModuleMap(nil)
	ev := ugo.NewEval(ugo.CompilerOptions{ModuleMap: mm}, w.Globals)
	ctx, cancel := context.WithCancel(context.Background())
	defer cancel()
	var ret ugo.Object
	var err error
	var follow string
	mainTh := s.Go("eval", func() {
		ret, _, err = ev.Run(ctx, []byte(sim.PreludeCall+"global (callmany, callall, boom)\n"+shape.src))
		if s.Killed() {
			return
		}
		s.Point(sim.PUser)
		if s.Killed() {
			return
		}
		// (callbacks on pooled and plain child VMs, and through a stdlib function, work again in the session)
		r2, _, e2 := ev.Run(context.Background(), []byte("zf := func(x) { return x + 1 }\nzr := [call(zf, 1), call(zf, 2), call(zf, 3), import(\"strings\").Map(func(c) { return c + 1 }, \"ab\")]\nreturn zr == [2, 3, 4, \"bc\"] ? 7 : zr"))
		follow = sim.MakeOutcome(r2, e2, nil).String()
	})
	canceller := s.Go("canceller", func() {
		s.Point(sim.PCancel)
		cancel()
	})
	mode := t.Draw(3)
	s.Quantum = func(t *sim.Tape) int32 {
		if mode == 0 {
			return 1
		}
		return int32(1 + t.Draw(8*mode))
	}
	var baseline int64
	cancelDone := false
	lost := false
	cancelBeforeSelect1 := false
	sawSelect1 := false
	lastMainPoint := 0
	lastMainAtCancel := 0
	followupPhase := false
	s.Enabled = func(s *sim.Sched, th *sim.SimThread) bool {
		if th == mainTh && th.Point() == sim.PUser {
			return cancelDone
		}
		return true
	}
	s.OnEvent = func(s *sim.Sched, th *sim.SimThread, point, obj int) {
		if th != canceller && point != ugo.VerifLoop {
			lastMainPoint = point
		}
		if th == mainTh && point == ugo.VerifEvalSelect1 {
			sawSelect1 = true
		}
		if th == mainTh && point == sim.PUser {
			followupPhase = true
			s.ClearCancel()
		}
		if th == canceller && point == sim.PDone && !cancelDone {
			cancelDone = true
			baseline = s.TotalLoops()
			cancelBeforeSelect1 = !sawSelect1
			lastMainAtCancel = lastMainPoint
		}
		if cancelDone && !followupPhase && !mainTh.Done() && s.TotalLoops()-baseline > c09Bound {
			lost = true
			s.Kill()
		}
	}
	if e := s.Run(); e != nil {
		rc.Fatal = true
		rc.Fail("hang", "hang:eval:"+shape.name, "a simulated thread blocked for real (not at a hook point): %v\nschedule: %s", e, c09TraceString(s, 120))
		return
	}
	rc.Steps = s.TotalLoops()
	if s.Degraded() {
		rc.Degraded = true
		rc.Probe("degraded-schedule(un-modelled blocking met)")
	}
	rc.Fault("cancel")
	rc.Probe("cancel-while-eval-at:" + pointName(lastMainAtCancel))
	rc.Logf("eval shape=%s trace=%016x err=%v follow=%s", shape.name, s.TraceHash(), err, follow)
	rc.Sig = fmt.Sprintf("eval %s cancel-at=%s %016x", shape.name, pointName(lastMainAtCancel), s.SwitchHash())
	if rc.Index%211 == 0 {
		rc.Sample = map[string]any{"scenario": "Eval", "shape": shape.name, "script": shape.src, "cancel_landed_while_eval_at": pointName(lastMainAtCancel), "schedule_prefix": c09TraceString(s, 60)}
	}
	decoded := map[string]any{"scenario": "Eval", "shape": shape.name, "script": shape.src, "cancel_landed_while_eval_at": pointName(lastMainAtCancel), "schedule": c09TraceString(s, 400)}
	switch {
	case s.Deadlock != "":
		rc.Decoded = decoded
		rc.Fail("deadlock", "eval-deadlock:"+pointName(lastMainAtCancel), "no simulated thread is runnable: %s\nschedule: %s", s.Deadlock, c09TraceString(s, 120))
	case lost || s.Overrun:
		rc.Decoded = decoded
		rc.Fail("lost-cancel", "lost-cancel:eval-at-"+pointName(lastMainAtCancel),
			"shape %s: Eval.Run did not return within %d instructions after the context was cancelled (cancel landed while Eval was at %s)\nschedule: %s",
			shape.name, c09Bound, pointName(lastMainAtCancel), c09TraceString(s, 120))
	case (!shape.finite || cancelBeforeSelect1) && err == nil:
		rc.Decoded = decoded
		rc.Fail("wrong-result", "eval-no-error-after-cancel", "shape %s (cancel before start=%v): Eval.Run returned %v with a nil error after cancellation", shape.name, cancelBeforeSelect1, ret)
	case follow != "value=i:7 hist=[]":
		rc.Decoded = decoded
		rc.Fail("aborted-vm-unusable", "eval-followup-differs", "after the cancelled evaluation the session evaluated `return 7` to %s", follow)
	}
}

func init() {
	sim.Register(&sim.Engine{
		ID:    "C09",
		Level: "fault_enumeration",
		Rule: "scenario VM: a runner thread executes one of 15 fixed script shapes (top-level loop, callee loop, loop on a pooled or non-pooled child VM, child of child, catch-and-retry, strings.Map callback, Go host loop over child VMs, nested host loop, tail recursion through a plain and through a selector call, iterator loop, second invocation on one Invoker handle loops, loop of nested try statements, a Go dispatcher that keeps invoking on one handle after errors, finite control) while aborter threads call Abort(); " +
			"enumerated runs place the abort thread after the runner's k-th reported hook event (k<60), let it run j of its own protocol points (j<7), give the runner m∈{1,3,9} events, then finish the abort — every (shape, pooled, k, j, m) once; random runs draw thread choice and quantum at every hook point with 1–2 aborters × 1–3 aborts. " +
			"scenario Eval: Eval.Run(ctx) with the context cancelled at a drawn point from before compilation to after completion. Oracle: Run/Eval.Run returns within 256 further VM instructions after the last Abort()/cancel() has returned, with ErrVMAborted / a non-nil error for non-terminating scripts; afterwards the same VM/session runs a fixed script to its known outcome. " +
			"distinct = distinct (shape, placement) for enumerated runs and distinct (shape, context-switch sequence) otherwise; every run has an abort or cancel, so every run is non-trivial.",
		Assumptions: []string{
			"'Once Run has been entered' is taken in the only client-observable sense: the VM has executed its first instruction; aborter threads become runnable from then on",
			"code between two hook points is atomic for the scheduler; pool critical sections are atomic",
			"cmd/ugo executeScript (package main) has the same start-up pattern as Eval.run and is outside the hooks: not covered",
		},
		Real:      []string{"VM.Run", "VM.Abort", "Invoker.Acquire/Invoke/Release", "vmPool", "Eval.Run", "stdlib strings.Map", "compiler"},
		Simulated: []string{"goroutine scheduling (hand-off at hook points)", "child-VM sync.Pool policy", "context cancellation instant", "host callbacks"},
		Runs: func(tier string) int {
			a, b, c := c09Sizes(tier)
			return a + b + c
		},
		RaceRuns: func(tier string) int {
			if tier == "thorough" {
				return 90000
			}
			return 6000
		},
		Run:          c09Run,
		ShrinkBudget: 1500,
		Exhaustive:   func(string) bool { return false },
		WallCap: func(tier string) float64 {
			if tier == "thorough" {
				return 1500
			}
			return 120
		},
		Extra: func(tier string) map[string]any {
			a, b, c := c09Sizes(tier)
			return map[string]any{"enumerated_placements": a, "random_vm_runs": b, "eval_runs": c,
				"exhaustive_note": "the (shape, pooled, k<60, j<7, m∈{1,3,9}) placement grid is enumerated completely; all other schedules are sampled"}
		},
	})
}
