package engines

import (
	"context"
	"errors"
	"fmt"
	"strings"

	"github.com/ozanh/ugo"
	"verif/sim"
)

// C10 — evaluating fragments one by one equals evaluating them as one script.
//
// Simulator-owned: the history of a long-lived Eval session — where a
// generated statement list is cut into fragments and which fragment fails
// (host fault, script error, compile error). Reference: a fresh Eval given the
// concatenation of the fragments so far.

const c10Prelude = "global (log, op, choose, call, trace, WID, GV)\nparam (PA, PB)\n"

type c10Result struct {
	compileErr bool
	innerErr   string
	val        string
	hist       []string
	glob       string
}

// c10CanonErr canonicalises an Eval error. compile reports whether it was
// raised before execution; inner is, for an optimizer error, the canonical form
// of the runtime error the optimizer met while folding a constant expression.
func c10CanonErr(err error) (canon string, compile bool, inner string) {
	s := err.Error()
	var oe *ugo.OptimizerError
	var ce *ugo.CompilerError
	isOpt := errors.As(err, &oe)
	if isOpt || errors.As(err, &ce) || strings.Contains(s, "Compile Error") || strings.Contains(s, "Parse Error") || strings.Contains(s, "Optimizer Error") {
		// positions differ between a fragment and the concatenation
		if i := strings.Index(s, "\n"); i >= 0 {
			s = s[:i]
		}
		if isOpt && oe.Err != nil {
			inner = sim.CanonErr(oe.Err)
		}
		// (the text is not compared: a multi-error report counts the errors of the whole compile unit)
		_ = s
		return "compile-error", true, inner
	}
	return sim.CanonErr(err), false, ""
}

func c10Globals(w *sim.World) string {
	m := ugo.Map{}
	for k, v := range w.Globals {
		if _, ok := v.(*ugo.Function); ok {
			continue
		}
		m[k] = v
	}
	return sim.Canon(m)
}

func c10Run(rc *sim.RunCtx) {
	t := rc.T
	g := newGen(t, genConfig{Modules: true, Hosts: true, Consts: t.Bool(1, 2), GlobalVar: true, NoTrace: true, ShadowBuiltins: true, Params: true, ManyVars: true, FuncTwins: true, MaxStmts: 14})
	_, mods := g.program()
	stmts := g.Top[:len(g.Top)-1] // without the final return
	vars := g.TopVars
	if len(stmts) < 2 {
		rc.Discard = "too-short"
		return
	}
	// cut points
	nCuts := 1 + t.Draw(9)
	isCut := make([]bool, len(stmts))
	for i := 0; i < nCuts; i++ {
		isCut[t.Draw(len(stmts)-1)] = true
	}
	var frags []string
	var cutVars [][]string
	var hasProbe []bool
	var cur strings.Builder
	// in a sixth of the runs the host gives the session no globals object: the script owns its global GV, and the host
	// functions arrive as parameters; every fragment runs under a context of its own that is cancelled as soon as the
	// fragment has returned (`defer cancel()`)
	nilGlobals := t.Bool(1, 6)
	if nilGlobals {
		cur.WriteString("param (PA, PB, log, op, choose, call, trace, WID)\nglobal GV\nGV = 5\n")
		rc.Probe("session-without-globals-object")
	} else {
		cur.WriteString(c10Prelude)
	}
	kinds := []string{}
	for i, st := range stmts {
		cur.WriteString(st)
		if isCut[i] || i == len(stmts)-1 {
			// the fragment ends with a probe reading every declared name
			names := vars[i]
			probed := i == len(stmts)-1 || !t.Bool(1, 3)
			if probed {
				cur.WriteString("[" + strings.Join(names, ", ") + "]\n")
			} // else: the fragment ends with its last statement; Eval then returns "the last value on the stack", which is
			// not comparable between a fragment and a longer script, so only errors, history and globals are compared
			hasProbe = append(hasProbe, probed)
			frags = append(frags, cur.String())
			cutVars = append(cutVars, names)
			cur.Reset()
			kinds = append(kinds, fmt.Sprint(i))
		}
	}
	mm := newModuleMap(append(append([]srcModule{}, fixedModules...), mods...))
	opts := ugo.CompilerOptions{ModuleMap: mm}
	switch t.Draw(3) {
	case 0:
		opts.NoOptimize = true
	case 1:
		opts.OptimizerLimit = 1 + t.Draw(100)
	}
	ws := sim.DrawWorldSpec(t, "w0", 4, 3, 2, []sim.FaultKind{sim.FGoErr, sim.FUgoErr}, 3, 32)
	pool := &sim.SimPool{T: t, Always: 1}
	restore := pool.Install()
	defer restore()
	sc := &sim.StepCounter{Cap: 300000}
	restoreHook := sc.Install()
	defer restoreHook()

	evalOne := func(ev *ugo.Eval, w *sim.World, src string) c10Result {
		ctx, cancel := context.WithCancel(context.Background())
		ret, _, err := ev.Run(ctx, []byte(src))
		cancel()
		r := c10Result{hist: append([]string(nil), w.Hist...), glob: c10Globals(w)}
		if nilGlobals {
			r.glob = "nil"
			if ev.Globals != nil {
				r.glob = sim.Canon(ev.Globals)
			}
		}
		if err != nil {
			var c string
			c, r.compileErr, r.innerErr = c10CanonErr(err)
			r.val = "error=" + c
		} else {
			r.val = "value=" + sim.Canon(ret)
		}
		return r
	}
	newSession := func() (*ugo.Eval, *sim.World) {
		w := sim.NewWorld(ws, nil)
		w.Globals["GV"] = ugo.Int(5)
		o := opts
		if nilGlobals {
			args := []ugo.Object{ugo.Int(3), ugo.String("pb")}
			for _, n := range []string{"log", "op", "choose", "call", "trace", "WID"} {
				args = append(args, w.Globals[n])
			}
			return ugo.NewEval(o, nil, args...), w
		}
		return ugo.NewEval(o, w.Globals, ugo.Int(3), ugo.String("pb")), w
	}

	sess, sw := newSession()
	sw.RC = rc // count the host faults of the session side only
	for range frags[1:] {
		rc.Fault("fragment-cut")
	}
	compared := 0
	// in a quarter of the runs the session is also given, at a drawn position, a fragment that does not compile (a typo,
	// an unknown name, an unknown module, an assignment to a constant). The batch side never sees it: the names declared
	// by earlier fragments keep their meaning in every later fragment, whatever was rejected in between.
	// (Not generated: a rejected fragment that declares a name before its error - the name stays in the session's symbol
	// table, and when the rejected fragment came before the `param` declaration the run arguments are bound one slot
	// off; and a rejected fragment that imports a module before its error. On the pinned tree that leaves the
	// session's module store pointing into the constants of the rejected compilation, and the next import of that
	// module panics in the compiler - a defect of Eval outside what C10 states, see DESIGN.md 8.7.)
	broken, junk := -1, ""
	if t.Bool(1, 4) {
		broken = t.Draw(len(frags))
		junk = []string{
			"zz := := 1\n",
			"zzq + 1\n",
			"import(\"nosuchmodule\")\n",
			"log(1) = 2\n",
			"return zzq\n",
		}[t.Draw(5)]
	}
	for i, f := range frags {
		if i == broken {
			jr := evalOne(sess, sw, junk)
			if !jr.compileErr {
				rc.Decoded = map[string]any{"fragment": junk, "result": jr.val}
				rc.Fail("session-differs-from-batch", "uncompilable-fragment-accepted", "the session evaluated a fragment that cannot compile: %s\n%s", jr.val, junk)
				return
			}
			rc.Fault("uncompilable-fragment")
		}
		got := evalOne(sess, sw, f)
		// reference: a fresh Eval with fragments 0..i as one script
		ref, rw := newSession()
		var all strings.Builder
		for j := 0; j <= i; j++ {
			all.WriteString(frags[j])
		}
		want := evalOne(ref, rw, all.String())
		// determinism of the reference itself
		ref2, rw2 := newSession()
		want2 := evalOne(ref2, rw2, all.String())
		if want.val != want2.val || strings.Join(want.hist, "|") != strings.Join(want2.hist, "|") {
			rc.Discard = "workload-not-self-deterministic"
			return
		}
		if sc.Capped {
			rc.Discard = "workload-too-long"
			return
		}
		compared++
		if got.innerErr != "" && want.innerErr == "" {
			// the session met a runtime error while folding a constant expression (an optimizer error wrapping it) and
			// refused to compile; the batch side did not fold that expression and met the error at run time, if at
			// all - where it ends the run or is caught by an enclosing try. How far the optimizer gets depends on its
			// budget, which a session refills for every fragment while the batch compilation has one budget for
			// everything: the session may fold what the batch run no longer can. Nothing about this fragment is
			// comparable then. (The other direction - the batch side folds what the session does not - is compared:
			// a fragment's fresh budget is never smaller than what the batch compilation had left at that point.)
			rc.Probe("fragment-failed:optimizer-vs-runtime")
			break
		}
		if got.compileErr && got.val == want.val {
			// a fragment that does not compile makes the whole concatenation uncompilable: the batch side
			// executes nothing, so only the error is comparable
			rc.Probe("fragment-failed:compile-error")
			break
		}
		if !hasProbe[i] && !strings.HasPrefix(got.val, "error=") && !strings.HasPrefix(want.val, "error=") {
			got.val, want.val = "value=(not compared)", "value=(not compared)"
		}
		if got.val != want.val || strings.Join(got.hist, "|") != strings.Join(want.hist, "|") || got.glob != want.glob {
			what := "value"
			if got.val == want.val {
				what = "history"
				if strings.Join(got.hist, "|") == strings.Join(want.hist, "|") {
					what = "globals"
				}
			}
			dec := map[string]any{"fragments": frags[:i+1], "no_optimize": opts.NoOptimize, "optimizer_limit": opts.OptimizerLimit, "faults": ws.Faults,
				"session": got.val, "batch": want.val}
			if broken >= 0 && broken <= i {
				dec["uncompilable_fragment_given_to_the_session_before_fragment"] = broken
				dec["uncompilable_fragment"] = junk
			}
			rc.Decoded = dec
			rc.Fail("session-differs-from-batch", "session-differs:"+what, "fragment %d of %d: the session and the batch evaluation of fragments 0..%d differ\n session: %s hist=%v globals=%s\n batch:   %s hist=%v globals=%s\nfragments:\n%s",
				i, len(frags), i, got.val, got.hist, got.glob, want.val, want.hist, want.glob, strings.Join(frags[:i+1], "---- cut ----\n"))
			return
		}
		if strings.HasPrefix(got.val, "error=") {
			rc.Probe("fragment-failed:" + strings.SplitN(got.val, "(", 2)[0])
			// the state the failing fragment left behind: read every name declared so far in the session and in a
			// fresh Eval that evaluated the concatenation (which failed at the same point)
			// (only names of earlier, successful fragments: a name the failing fragment declared but never reached has no defined value)
			if i > 0 && len(cutVars[i-1]) > 0 {
				names := cutVars[i-1]
				probe := "[" + strings.Join(names, ", ") + "]\n"
				pg := evalOne(sess, sw, probe)
				pw := evalOne(ref, rw, probe)
				if pg.val != pw.val {
					rc.Decoded = map[string]any{"fragments": frags[:i+1], "probe": probe, "session": pg.val, "batch": pw.val}
					rc.Fail("session-differs-from-batch", "session-differs:state-after-failure", "after fragment %d failed (%s) the session and a fresh Eval that evaluated fragments 0..%d as one script hold different variable state\n probe:   %s session: %s\n batch:   %s\nfragments:\n%s",
						i, got.val, i, probe, pg.val, pw.val, strings.Join(frags[:i+1], "---- cut ----\n"))
					return
				}
				rc.Probe("state-after-failure-compared")
			}
			break // nothing else is compared after the first failing fragment
		}
	}
	rc.Steps = sc.Steps
	rc.Logf("frags=%d compared=%d cuts=%v", len(frags), compared, kinds)
	if len(frags) >= 2 && compared >= 2 {
		rc.Sig = fmt.Sprintf("%x|%v", hash64s(strings.Join(stmts, "")), kinds)
		if rc.Index%43 == 0 {
			rc.Sample = map[string]any{"fragments": frags, "compared": compared}
		}
	}
}

func init() {
	sim.Register(&sim.Engine{
		ID:    "C10",
		Level: "exploration",
		Rule: "each run generates a list of top-level statements (declarations, const/iota groups, closures capturing top-level variables and later writes to them, blocks that re-use slots, imports, try statements, host calls that may fail, writes to the global GV), cuts it at 1–9 drawn points into fragments, each ending with a probe expression reading every declared name, and evaluates them one by one in one Eval session; " +
			"after each fragment the result (value | error name+message | compile-error), the cumulative host history and the globals must equal those of a fresh Eval given the concatenation so far; comparison stops at the first failing fragment. Swarm: optimizer off / default / OptimizerLimit 1..100. " +
			"Non-trivial = at least two fragments compared; distinct = distinct (statement list, cut vector).",
		Assumptions: []string{"compile errors are compared as a class only (positions and error counts differ between a fragment and the concatenation); when a fragment fails to compile only the error is compared, because the concatenation then executes nothing at all", "fragments never return from the top level; the fragment value is its trailing probe expression"},
		Real:        []string{"Eval.Run", "compileScript with carried symbol table/constants/module store", "VM.GetLocals", "compiler", "optimizer"},
		Simulated:   []string{"fragment boundaries", "host functions and their failures"},
		Runs: func(tier string) int {
			if tier == "thorough" {
				return 2000000
			}
			return 100000
		},
		WallCap: func(tier string) float64 {
			if tier == "thorough" {
				return 1500
			}
			return 120
		},
		Run:          c10Run,
		ShrinkBudget: 800,
	})
}
