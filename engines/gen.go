package engines

import (
	"fmt"
	"strings"

	"verif/sim"
)

// Rich script generator (DESIGN.md appendix A.1). Draws only from the tape,
// keeps its state in slices, emits script text. Guarantees termination
// (literal loop bounds, recursion through a strictly decreasing literal
// depth), never iterates or prints a map with more than one key, uses no
// clock and no pointer-valued strings.

type typ int

const (
	tInt typ = iota
	tFloat
	tStr
	tBool
	tArr // array of ints
	tMap
	tErr
	tFn
	tAny
	numTyps
)

type gvar struct {
	name     string
	t        typ
	arity    int // tFn: fixed params
	variadic bool
	ret      typ
	konst    bool
	mod      *gmod // module value
}

type gmod struct {
	name string
	fns  []gvar // exported function fields
}

type genConfig struct {
	Modules  bool // generate and import source modules, host and stdlib modules
	Hosts    bool // use op/choose/call/trace
	Consts   bool // extreme constants
	MaxStmts int  // top-level statements (default 10)
	// TopLevelList makes program() also keep the top-level statements separately
	// (fragment cutting, C10); no top-level return is generated before the end.
	NoTry bool
	// HostState uses host.bump()/host.state: Go-side module state shared by every
	// program that imports the module (only for engines that reset it between runs).
	HostState bool
	// ManyVars sometimes starts the script with 15–26 variable declarations.
	ManyVars bool
	// Params declares `param (PA, PB)`: an int and a string passed by the host to Run.
	Params bool
	// ShadowBuiltins lets top-level statements rebind builtin names (len, int, string, …) that later statements call.
	ShadowBuiltins bool
	// GlobalVar declares the global GV (assigned and read by the script).
	GlobalVar bool
	// FuncTwins: textually identical function literals in several top-level statements, and comparisons of the
	// resulting function values (function values are compared by identity).
	FuncTwins bool
	// VarParams adds a variadic parameter PR after the fixed ones (the host passes three surplus arguments); the script
	// reads and overwrites its elements.
	VarParams bool
	// NilGlobals: the host runs the VM without a globals object. The host functions arrive as parameters after PA, PB
	// and the script keeps a global GV of its own (first assigned from PA, so that it differs per VM).
	NilGlobals bool
	// CallMark emits call sites of script functions as placeholders that are
	// later rendered either as in-script calls or as calls through the host
	// (Invoker): the two variants of one script (C14).
	CallMark bool
	// NoTrace: never log resolved positions (they legitimately differ between the variants of C14).
	NoTrace bool
	// Share adds statements that exercise structures shared between VMs of one
	// Bytecode: errors thrown in module files and resolved with trace(), writes
	// to builtin-module values, calls through pooled child VMs (C08).
	Share bool
}

type gen struct {
	t           *sim.Tape
	cfg         genConfig
	scopes      [][]gvar
	nvar        int
	nop         int
	nchoose     int
	ncall       int
	depth       int
	fnDepth     int
	loop        int
	mods        []srcModule
	gmods       []*gmod
	twins       int
	depthParams map[string]bool
	tryDepths   map[int]int
	Top         []string   // top-level statements
	TopVars     [][]string // names readable after the i-th top-level statement (non-function, non-module)
	features    map[string]bool
	inModule    bool
	// noGrow: while set, string and array expressions reference no variable and
	// call no function, so that an assignment cannot double its target
	// (exponential growth inside loops).
	noGrow bool
	// noVars: while set, expressions reference no variable at all. Used for the value stored into an element of an
	// array or map: declared types are only guesses, two variables may name one container, and a container that
	// (indirectly) holds itself sends every recursive operation of ugo on it - String, Equal, Copy, the encoders -
	// into unbounded recursion, which is a fatal stack overflow of the process (see DESIGN.md 8.7).
	noVars bool
	// exclude names a variable that expressions must not reference at the moment
	exclude string
}

func newGen(t *sim.Tape, c genConfig) *gen {
	if c.MaxStmts == 0 {
		c.MaxStmts = 10
	}
	return &gen{t: t, cfg: c, scopes: [][]gvar{nil}, features: map[string]bool{}}
}

// tryBlock is block() for the body of a try, catch or finally clause. In uGO the three clauses of one try statement
// share a single scope: a name declared in the try body is the same variable in the catch and finally clauses (unset,
// or holding whatever last lived in its slot, when the declaration was not reached). The generator keeps its own
// per-clause scopes, which is only right as long as such a declaration never takes the name of an outer variable.
func (g *gen) tryBlock(n, lvl int) string {
	d := len(g.scopes) + 1
	if g.tryDepths == nil {
		g.tryDepths = map[int]int{}
	}
	g.tryDepths[d]++
	defer func() { g.tryDepths[d]-- }()
	return g.block(n, lvl)
}

func (g *gen) push() { g.scopes = append(g.scopes, nil) }
func (g *gen) pop()  { g.scopes = g.scopes[:len(g.scopes)-1] }

func (g *gen) declare(v gvar) {
	g.scopes[len(g.scopes)-1] = append(g.scopes[len(g.scopes)-1], v)
}

func (g *gen) fresh(prefix string) string {
	g.nvar++
	return fmt.Sprintf("%s%d", prefix, g.nvar)
}

// vars returns visible variables of type t (innermost first).
func (g *gen) vars(t typ) []gvar {
	if g.noVars {
		return nil
	}
	var out []gvar
	seen := map[string]bool{}
	for i := len(g.scopes) - 1; i >= 0; i-- {
		for j := len(g.scopes[i]) - 1; j >= 0; j-- {
			v := g.scopes[i][j]
			if seen[v.name] {
				continue
			}
			seen[v.name] = true
			if v.mod != nil {
				continue // module values are only used through modVars
			}
			if v.name == g.exclude {
				continue
			}
			if v.t == t || t == tAny {
				out = append(out, v)
			}
		}
	}
	return out
}

// modVars returns visible module variables.
func (g *gen) modVars() []gvar {
	var out []gvar
	seen := map[string]bool{}
	for i := len(g.scopes) - 1; i >= 0; i-- {
		for j := len(g.scopes[i]) - 1; j >= 0; j-- {
			v := g.scopes[i][j]
			if seen[v.name] {
				continue
			}
			seen[v.name] = true
			if v.mod != nil {
				out = append(out, v)
			}
		}
	}
	return out
}

// exprNoVars is expr with noVars set (values stored into container elements).
func (g *gen) exprNoVars(t typ, d int) string {
	save := g.noVars
	g.noVars = true
	defer func() { g.noVars = save }()
	return g.expr(t, d)
}

func (g *gen) pickVar(t typ) (gvar, bool) {
	vs := g.vars(t)
	if len(vs) == 0 {
		return gvar{}, false
	}
	return vs[g.t.Draw(len(vs))], true
}

func (g *gen) intLit() string {
	if g.cfg.Consts && g.t.Bool(1, 8) {
		return []string{"9223372036854775807", "-9223372036854775807", "4294967296", "-1", "255", "'a'", "'ğ'", "7u", "18446744073709551615u", "0x7f", "1e3"}[g.t.Draw(11)]
	}
	return fmt.Sprint(g.t.Draw(10))
}

func (g *gen) floatLit() string {
	if g.cfg.Consts && g.t.Bool(1, 4) {
		return []string{"-0.0", "1e308", "-1e-308", "0.1", "3.141592653589793", "1e21"}[g.t.Draw(6)]
	}
	return []string{"0.5", "1.5", "2.0", "0.0"}[g.t.Draw(4)]
}

func (g *gen) strLit() string {
	if g.cfg.Hosts && !g.inModule && g.t.Bool(1, 6) {
		return "WID"
	}
	if g.cfg.Consts && g.t.Bool(1, 5) {
		return []string{`""`, `"\x00\xff"`, `"日本"`, "`raw\\n`", `"a\tb\n"`}[g.t.Draw(5)]
	}
	return fmt.Sprintf("%q", []string{"a", "bc", "xyz", "s"}[g.t.Draw(4)])
}

// expr generates an expression of (mostly) type t.
func (g *gen) expr(t typ, d int) string {
	if t == tAny {
		t = typ(g.t.Draw(int(tErr) + 1))
	}
	// a small fraction of deliberately ill-typed operands
	if d > 0 && g.t.Bool(1, 40) {
		t = typ(g.t.Draw(int(tErr) + 1))
	}
	frozen := g.noGrow && (t == tStr || t == tArr || t == tMap)
	if d <= 0 || g.t.Bool(1, 3) {
		if v, ok := g.pickVar(t); ok && g.t.Bool(3, 4) && !frozen {
			return v.name
		}
		return g.leaf(t)
	}
	switch t {
	case tInt:
		switch g.t.Draw(9) {
		case 0:
			return g.leaf(t)
		case 1:
			return "(" + g.expr(tInt, d-1) + " " + []string{"+", "-", "*", "&", "|", "^"}[g.t.Draw(6)] + " " + g.expr(tInt, d-1) + ")"
		case 2:
			return "(" + g.expr(tInt, d-1) + " " + []string{"/", "%"}[g.t.Draw(2)] + " " + fmt.Sprint(1+g.t.Draw(7)) + ")"
		case 3:
			return "len(" + g.expr([]typ{tArr, tStr}[g.t.Draw(2)], d-1) + ")"
		case 4:
			return "(" + g.expr(tBool, d-1) + " ? " + g.expr(tInt, d-1) + " : " + g.expr(tInt, d-1) + ")"
		case 5:
			return g.expr(tArr, d-1) + "[" + fmt.Sprint(g.t.Draw(3)) + "]"
		case 6:
			if c := g.callExpr(tInt, d); c != "" {
				return c
			}
			return "int(" + g.expr(tFloat, d-1) + ")"
		case 7:
			if g.t.Bool(1, 3) {
				// a function held in a map, called through a selector
				return "{k: func(a, ...r) { return a + len(r) }}.k(" + g.expr(tInt, d-1) + ", 1)"
			}
			if g.t.Bool(1, 4) {
				return "int(uint(" + fmt.Sprint(g.t.Draw(9)) + ") + 3u)"
			}
			if g.t.Bool(1, 4) {
				return "len(bytes(" + g.expr(tStr, d-1) + "))"
			}
			return "(" + g.expr(tInt, d-1) + " << " + fmt.Sprint(g.t.Draw(4)) + ")"
		default:
			return "-(" + g.expr(tInt, d-1) + ")"
		}
	case tFloat:
		switch g.t.Draw(4) {
		case 0:
			return "(" + g.expr(tFloat, d-1) + " " + []string{"+", "-", "*", "/"}[g.t.Draw(4)] + " " + g.expr(tFloat, d-1) + ")"
		case 1:
			return "float(" + g.expr(tInt, d-1) + ")"
		case 2:
			return "(" + g.expr(tFloat, d-1) + " + " + g.expr(tInt, d-1) + ")"
		default:
			return g.leaf(t)
		}
	case tStr:
		switch g.t.Draw(6) {
		case 0:
			return "(" + g.expr(tStr, d-1) + " + " + g.expr(tStr, d-1) + ")"
		case 1:
			return "string(" + g.expr(tInt, d-1) + ")"
		case 2:
			return "sprintf(\"%v-%s\", " + g.expr([]typ{tInt, tArr, tFloat, tBool}[g.t.Draw(4)], d-1) + ", " + g.expr(tStr, d-1) + ")"
		case 3:
			if g.t.Bool(1, 3) {
				return "string(char(" + fmt.Sprint(97+g.t.Draw(20)) + "))"
			}
			if g.t.Bool(1, 3) {
				return "string(bytes(" + g.strLit() + "))"
			}
			return g.expr(tStr, d-1) + "[" + fmt.Sprint(g.t.Draw(2)) + ":]"
		case 4:
			if c := g.callExpr(tStr, d); c != "" {
				return c
			}
			return "typeName(" + g.expr(tAny, d-1) + ")"
		default:
			return g.leaf(t)
		}
	case tBool:
		switch g.t.Draw(6) {
		case 0:
			return "(" + g.expr(tInt, d-1) + " " + []string{"<", ">", "<=", ">=", "==", "!="}[g.t.Draw(6)] + " " + g.expr(tInt, d-1) + ")"
		case 1:
			return "!" + g.expr(tBool, d-1)
		case 2:
			return "(" + g.expr(tBool, d-1) + " " + []string{"&&", "||"}[g.t.Draw(2)] + " " + g.expr(tBool, d-1) + ")"
		case 3:
			return "(" + g.expr(tStr, d-1) + " == " + g.expr(tStr, d-1) + ")"
		case 4:
			if g.t.Bool(1, 2) {
				return "contains(" + g.expr(tStr, d-1) + ", " + g.strLit() + ")"
			}
			return "isError(" + g.expr(tAny, d-1) + ")"
		default:
			return g.leaf(t)
		}
	case tArr:
		switch g.t.Draw(6) {
		case 0:
			return "append(" + g.expr(tArr, d-1) + ", " + g.expr(tInt, d-1) + ")"
		case 1:
			return "(" + g.expr(tArr, d-1) + " + " + g.expr(tArr, d-1) + ")"
		case 2:
			switch g.t.Draw(4) {
			case 0:
				return "repeat(" + g.leaf(tArr) + ", " + fmt.Sprint(g.t.Draw(3)) + ")"
			case 1:
				return "copy(" + g.expr(tArr, d-1) + ")"
			case 2:
				return "chars(" + g.strLit() + ")"
			}
			return g.expr(tArr, d-1) + "[" + fmt.Sprint(g.t.Draw(2)) + ":]"
		case 3:
			if c := g.callExpr(tArr, d); c != "" {
				return c
			}
			fallthrough
		case 4:
			n := g.t.Draw(4)
			parts := make([]string, n)
			for i := range parts {
				parts[i] = g.expr(tInt, d-1)
			}
			return "[" + strings.Join(parts, ", ") + "]"
		default:
			return g.leaf(t)
		}
	case tMap:
		switch g.t.Draw(3) {
		case 0:
			return "{k: " + g.expr(tAny, d-1) + "}"
		case 1:
			return "{k: [" + g.expr(tInt, d-1) + ", " + g.expr(tStr, d-1) + "]}"
		default:
			return g.leaf(t)
		}
	case tErr:
		if g.t.Bool(1, 2) {
			return "error(" + g.expr(tStr, d-1) + ")"
		}
		return g.leaf(t)
	}
	return g.leaf(t)
}

func (g *gen) leaf(t typ) string {
	switch t {
	case tInt:
		return g.intLit()
	case tFloat:
		return g.floatLit()
	case tStr:
		return g.strLit()
	case tBool:
		return []string{"true", "false"}[g.t.Draw(2)]
	case tArr:
		return []string{"[]", "[1, 2, 3]", "[7]", "[0, 0]"}[g.t.Draw(4)]
	case tMap:
		return []string{"{}", "{k: 1}", "{k: \"x\"}"}[g.t.Draw(3)]
	case tErr:
		return []string{`error("E1")`, `TypeError.New("t")`, `error("")`}[g.t.Draw(3)]
	}
	return "undefined"
}

// callExpr calls a visible function (or module function) returning t.
func (g *gen) callExpr(t typ, d int) string {
	if g.noGrow {
		return ""
	}
	var cands []gvar
	for _, v := range g.vars(tFn) {
		if v.ret == t {
			cands = append(cands, v)
		}
	}
	for _, v := range g.modVars() {
		for _, f := range v.mod.fns {
			if f.ret == t {
				f.name = v.name + "." + f.name
				cands = append(cands, f)
			}
		}
	}
	if len(cands) == 0 {
		return ""
	}
	f := cands[g.t.Draw(len(cands))]
	return g.callOf(f, d)
}

func (g *gen) callOf(f gvar, d int) string {
	name := f.name
	args := make([]string, 0, f.arity+2)
	for i := 0; i < f.arity; i++ {
		args = append(args, g.expr(tInt, d-1))
	}
	if f.variadic {
		switch g.t.Draw(3) {
		case 1:
			args = append(args, g.expr(tInt, d-1))
		case 2:
			args = append(args, "..."+g.expr(tArr, d-1))
		}
	}
	if g.cfg.CallMark && !g.inModule && !strings.Contains(name, ".") && !strings.Contains(strings.Join(args, ","), "...") && g.t.Bool(2, 3) {
		g.features["call"] = true
		if g.t.Bool(1, 4) {
			// repeated invocation on one handle
			return "\x04" + fmt.Sprint(1+g.t.Draw(3)) + "\x02" + name + "\x02" + strings.Join(args, ", ") + "\x03"
		}
		if f.arity == 1 && !f.variadic && g.t.Bool(1, 3) {
			// a batch on one handle that tolerates per-item errors
			items := []string{args[0], g.expr(tInt, 1), g.expr(tAny, 1)}
			return "\x05" + name + "\x02" + strings.Join(items, ", ") + "\x03"
		}
		return "\x01" + name + "\x02" + strings.Join(args, ", ") + "\x03"
	}
	// calling through the host (Invoker) instead of directly
	if g.cfg.Hosts && !g.cfg.CallMark && !g.inModule && !strings.Contains(name, ".") && g.t.Bool(1, 4) && !strings.HasPrefix(strings.Join(args, ","), "...") && !strings.Contains(strings.Join(args, ","), "...") {
		g.ncall++
		g.features["call"] = true
		return "call(" + strings.Join(append([]string{name}, args...), ", ") + ")"
	}
	return name + "(" + strings.Join(args, ", ") + ")"
}

func ind(n int) string { return strings.Repeat("\t", n) }

// block generates n statements in a new scope.
func (g *gen) block(n, lvl int) string {
	g.push()
	defer g.pop()
	var sb strings.Builder
	for i := 0; i < n; i++ {
		sb.WriteString(g.stmt(lvl))
	}
	return sb.String()
}

// funcLit generates a function literal; returns its text and signature.
func (g *gen) funcLit(lvl int, recursiveName string) (string, gvar) {
	sig := gvar{t: tFn, arity: g.t.Draw(3), variadic: g.t.Bool(1, 4), ret: []typ{tInt, tStr, tArr, tInt}[g.t.Draw(4)]}
	if recursiveName != "" && sig.arity == 0 {
		sig.arity = 1
	}
	g.push()
	defer g.pop()
	g.fnDepth++
	saveLoop := g.loop
	g.loop = 0
	defer func() { g.fnDepth--; g.loop = saveLoop }()
	var ps []string
	for i := 0; i < sig.arity; i++ {
		p := g.fresh("p")
		ps = append(ps, p)
		// the first parameter of a recursive function is its strictly decreasing depth: never assigned
		g.declare(gvar{name: p, t: tInt, konst: recursiveName != "" && i == 0})
		if recursiveName != "" && i == 0 {
			if g.depthParams == nil {
				g.depthParams = map[string]bool{}
			}
			g.depthParams[p] = true
		}
	}
	if sig.variadic {
		p := g.fresh("va")
		ps = append(ps, "..."+p)
		g.declare(gvar{name: p, t: tArr})
	}
	var sb strings.Builder
	sb.WriteString("func(" + strings.Join(ps, ", ") + ") {\n")
	if recursiveName != "" {
		// strictly decreasing first parameter
		sb.WriteString(ind(lvl+1) + "if " + ps[0] + " <= 0 { return " + g.leaf(sig.ret) + " }\n")
	}
	n := g.t.Draw(3)
	for i := 0; i < n; i++ {
		sb.WriteString(g.stmt(lvl + 1))
	}
	if recursiveName != "" {
		rest := ""
		for i := 1; i < sig.arity; i++ {
			rest += ", " + g.expr(tInt, 1)
		}
		rec := recursiveName + "(" + ps[0] + " - 1" + rest + ")"
		switch sig.ret {
		case tInt:
			sb.WriteString(ind(lvl+1) + "return " + rec + " + " + g.expr(tInt, 1) + "\n")
		case tStr:
			sb.WriteString(ind(lvl+1) + "return " + rec + " + " + g.expr(tStr, 1) + "\n")
		default:
			sb.WriteString(ind(lvl+1) + "return append(" + rec + ", " + g.expr(tInt, 1) + ")\n")
		}
	} else {
		sb.WriteString(ind(lvl+1) + "return " + g.expr(sig.ret, 2) + "\n")
	}
	sb.WriteString(ind(lvl) + "}")
	return sb.String(), sig
}

func (g *gen) logStmt(lvl int) string {
	if g.inModule {
		// modules cannot see globals: observe through a private variable instead
		name := g.fresh("v")
		t := typ(g.t.Draw(int(tErr)))
		s := ind(lvl) + name + " := " + g.expr(t, 2) + "\n"
		g.declare(gvar{name: name, t: t})
		return s
	}
	n := 1 + g.t.Draw(2)
	parts := make([]string, n)
	for i := range parts {
		parts[i] = g.expr(tAny, 2)
	}
	return ind(lvl) + "log(" + strings.Join(parts, ", ") + ")\n"
}

// stmt generates one statement at nesting level lvl.
func (g *gen) stmt(lvl int) string {
	g.depth++
	defer func() { g.depth-- }()
	deep := g.depth > 4
	w := []int{6, 5, 5, 3, 3, 2, 3, 3, 2, 2, 2, 1, 2}
	if deep {
		w = []int{6, 5, 5, 0, 0, 0, 0, 0, 2, 0, 2, 1, 0}
	}
	if g.cfg.CallMark && !deep {
		w[6], w[10] = 7, 7
	}
	if g.cfg.NoTry {
		w[7] = 0
		w[11] = 0
	}
	if !g.cfg.Hosts || g.inModule {
		w[8] = 0
	}
	if g.inModule {
		w[0] = 0
	}
	if g.cfg.Share && !g.inModule && g.t.Bool(1, 5) {
		return g.shareStmt(lvl)
	}
	switch g.t.Pick(w...) {
	case 0:
		return g.logStmt(lvl)
	case 1: // define
		t := typ(g.t.Draw(int(tErr)))
		name := g.fresh("v")
		if len(g.scopes) > 1 && g.t.Bool(1, 8) && g.tryDepths[len(g.scopes)] == 0 {
			// a new variable of an inner scope that takes the name of a variable or constant of an outer scope
			if outer := g.vars(tAny); len(outer) > 0 {
				name = outer[g.t.Draw(len(outer))].name
				// (never the depth parameter of a recursive function: the new variable would live in the parameter's own
				// scope when the statement stands directly in the function body, and the recursion would lose its bound)
				if strings.Contains(name, ".") || name == "GV" || name == "PA" || name == "PB" || g.depthParams[name] {
					name = g.fresh("v")
				}
			}
		}
		s := ind(lvl) + name + " := " + g.expr(t, 3) + "\n"
		g.declare(gvar{name: name, t: t})
		return s
	case 2: // assign
		vs := g.vars(tAny)
		var cands []gvar
		for _, v := range vs {
			if !v.konst && v.t != tFn && v.mod == nil && v.t != tErr {
				cands = append(cands, v)
			}
		}
		if len(cands) == 0 {
			return g.logStmt(lvl)
		}
		v := cands[g.t.Draw(len(cands))]
		g.noGrow = true
		g.exclude = v.name // never x = x + x: the declared type of x is only a guess
		defer func() { g.noGrow = false; g.exclude = "" }()
		switch {
		case v.t == tInt && g.t.Bool(1, 2):
			return ind(lvl) + v.name + " " + []string{"+=", "-=", "*="}[g.t.Draw(3)] + " " + g.expr(tInt, 2) + "\n"
		case v.t == tInt && g.t.Bool(1, 3):
			return ind(lvl) + v.name + "++\n"
		case v.t == tStr && g.t.Bool(1, 2):
			return ind(lvl) + v.name + " += " + g.expr(tStr, 2) + "\n"
		case v.t == tArr && g.t.Bool(1, 2):
			// guarded: an ill-typed assignment may have put a map here, and an index
			// assignment would give it a second key (map printing order is unspecified)
			g.noVars = true
			defer func() { g.noVars = false }()
			return ind(lvl) + "if isArray(" + v.name + ") { " + v.name + "[" + fmt.Sprint(g.t.Draw(3)) + "] = " + g.expr(tInt, 2) + " }\n"
		case v.t == tMap && g.t.Bool(1, 2):
			g.noVars = true
			defer func() { g.noVars = false }()
			return ind(lvl) + v.name + ".k = " + g.expr(tAny, 2) + "\n"
		}
		return ind(lvl) + v.name + " = " + g.expr(v.t, 3) + "\n"
	case 3: // if
		s := ind(lvl) + "if (" + g.expr(tBool, 2) + ") {\n" + g.block(1+g.t.Draw(2), lvl+1) + ind(lvl) + "}"
		if g.t.Bool(1, 2) {
			s += " else {\n" + g.block(1+g.t.Draw(2), lvl+1) + ind(lvl) + "}"
		}
		return s + "\n"
	case 4: // for
		i := g.fresh("i")
		g.push()
		g.declare(gvar{name: i, t: tInt, konst: true})
		g.loop++
		body := g.block(1+g.t.Draw(2), lvl+1)
		if g.t.Bool(1, 4) {
			jump := []string{"break", "continue"}[g.t.Draw(2)]
			if g.t.Bool(1, 3) {
				// a statement that can never execute stays behind the jump in the same block
				jump += "; " + []string{"log(\"dead\")", "dz := 1", "throw \"dead\""}[g.t.Draw(3)]
			}
			body += ind(lvl+1) + "if (" + g.expr(tBool, 1) + ") { " + jump + " }\n"
		}
		g.loop--
		g.pop()
		return ind(lvl) + "for " + i + " := 0; " + i + " < " + fmt.Sprint(1+g.t.Draw(3)) + "; " + i + "++ {\n" + body + ind(lvl) + "}\n"
	case 5: // for-in
		k, v := g.fresh("k"), g.fresh("e")
		src := g.expr([]typ{tArr, tStr}[g.t.Draw(2)], 1)
		g.push()
		g.declare(gvar{name: k, t: tInt, konst: true})
		g.declare(gvar{name: v, t: tAny, konst: true})
		g.loop++
		body := g.block(1+g.t.Draw(2), lvl+1)
		g.loop--
		g.pop()
		return ind(lvl) + "for " + k + ", " + v + " in " + src + " {\n" + body + ind(lvl) + "}\n"
	case 6: // function definition
		if g.fnDepth >= 2 {
			return g.logStmt(lvl)
		}
		name := g.fresh("f")
		if g.t.Bool(1, 4) {
			// recursive: var f; f = func...
			g.declare(gvar{name: name, t: tAny, konst: true}) // not callable while generating its own body except via recursion template
			lit, sig := g.funcLit(lvl, name)
			sig.name = name
			// re-declare with signature: calls pass a small literal depth as first arg
			g.declare(gvar{name: name + "_w", t: tFn, arity: 0, ret: sig.ret})
			args := []string{fmt.Sprint(1 + g.t.Draw(4))}
			for i := 1; i < sig.arity; i++ {
				args = append(args, "1")
			}
			wrapper := ind(lvl) + name + "_w := func() { return " + name + "(" + strings.Join(args, ", ") + ") }\n"
			return ind(lvl) + "var " + name + "\n" + ind(lvl) + name + " = " + lit + "\n" + wrapper
		}
		lit, sig := g.funcLit(lvl, "")
		sig.name = name
		g.declare(sig)
		return ind(lvl) + name + " := " + lit + "\n"
	case 7: // try
		var sb strings.Builder
		sb.WriteString(ind(lvl) + "try {\n" + g.tryBlock(1+g.t.Draw(2), lvl+1))
		if g.t.Bool(1, 3) {
			sb.WriteString(ind(lvl+1) + "throw " + g.expr([]typ{tStr, tErr, tInt}[g.t.Draw(3)], 1) + "\n")
		}
		hasCatch := g.t.Bool(2, 3)
		if hasCatch {
			e := g.fresh("err")
			g.push()
			g.declare(gvar{name: e, t: tErr, konst: true})
			sb.WriteString(ind(lvl) + "} catch " + e + " {\n")
			if !g.inModule {
				sb.WriteString(ind(lvl+1) + "log(" + e + ")\n")
			}
			if g.cfg.Hosts && !g.cfg.NoTrace && !g.inModule && g.t.Bool(1, 2) {
				sb.WriteString(ind(lvl+1) + "log(trace(" + e + "))\n")
			}
			sb.WriteString(g.tryBlock(g.t.Draw(2), lvl+1))
			g.pop()
		}
		if !hasCatch || g.t.Bool(1, 2) {
			sb.WriteString(ind(lvl) + "} finally {\n" + g.tryBlock(1, lvl+1))
		}
		sb.WriteString(ind(lvl) + "}\n")
		return sb.String()
	case 8: // host op / choose
		if g.t.Bool(1, 2) {
			g.nop++
			name := g.fresh("v")
			s := ind(lvl) + name + " := op(" + fmt.Sprint(g.t.Draw(4)) + ")\n"
			g.declare(gvar{name: name, t: tInt})
			return s
		}
		g.nchoose++
		return ind(lvl) + "if choose(" + fmt.Sprint(g.t.Draw(3)) + ") > 1 {\n" + g.block(1, lvl+1) + ind(lvl) + "}\n"
	case 9: // return inside function
		if g.fnDepth > 0 && g.t.Bool(1, 2) {
			return ind(lvl) + "if (" + g.expr(tBool, 1) + ") { return " + g.expr(tAny, 1) + " }\n"
		}
		return g.logStmt(lvl)
	case 10: // call statement
		fs := g.vars(tFn)
		if len(fs) == 0 {
			return g.logStmt(lvl)
		}
		f := fs[g.t.Draw(len(fs))]
		return ind(lvl) + g.callOf(f, 2) + "\n"
	case 11: // throw (usually caught by an enclosing try of the generated nest, else ends the run: an ordinary outcome)
		if g.t.Bool(1, 3) {
			return ind(lvl) + "if (" + g.expr(tBool, 1) + ") { throw " + g.expr(tStr, 1) + " }\n"
		}
		return g.logStmt(lvl)
	default: // import inside code
		if !g.cfg.Modules || g.inModule {
			return g.logStmt(lvl)
		}
		return g.importStmt(lvl)
	}
}

// shareStmt exercises a structure that VMs of one Bytecode share.
func (g *gen) shareStmt(lvl int) string {
	in := ind(lvl)
	e := g.fresh("err")
	switch g.t.Draw(11) {
	case 10: // a Go module with working state of its own (scanners, buffers): well-formed and malformed documents
		doc := []string{"`{\"a\": [1, 2, {\"b\": null}]}`", "`[1, 2,, 3]`", "`{\"a\": }`", "`  [ true , false ]  `", "`{\"k\": \"v\"`", "`\"s\"`"}[g.t.Draw(6)]
		fn := []string{"Valid", "Compact", "Indent"}[g.t.Draw(3)]
		call := "import(\"json\")." + fn + "(" + doc
		if fn == "Indent" {
			call += ", \"\", \" \""
		} else if fn == "Compact" {
			call += ", false"
		}
		call += ")"
		return in + "try {\n" + in + "\tlog(string(" + call + "))\n" + in + "} catch " + e + " {\n" + in + "\tlog(\"json:\", " + e + ".Message)\n" + in + "}\n"
	case 9: // a container attribute of a builtin module written and read directly through import expressions
		za, zn := g.fresh("za"), g.fresh("zn")
		return in + za + " := import(\"host\").arr\n" + in + za + "[" + fmt.Sprint(g.t.Draw(3)) + "] = len(WID) * " + fmt.Sprint(2+g.t.Draw(9)) + "\n" +
			in + zn + " := import(\"host\").nested\n" + in + zn + ".arr[0] = WID\n" + in + "log(import(\"host\").arr, import(\"host\").nested.arr[0])\n"
	case 8: // a writable value made from a constant: the constant itself must stay what it was
		b, lit := g.fresh("b"), g.strLit()
		return in + b + " := bytes(" + lit + ")\n" + in + "if len(" + b + ") > 0 { " + b + "[0] = 65 + len(WID) }\n" + in + "log(string(" + b + "), " + lit + ")\n"
	case 7: // callbacks nested many levels deep: every level holds a pooled child VM of its own
		f, d := g.fresh("fr"), g.fresh("d")
		return in + "var " + f + "\n" + in + f + " = func(n) {\n" + in + "\tif n <= 0 { return len(WID) }\n" + in + "\t" + d + " := 0\n" +
			in + "\timport(\"strings\").Map(func(c) { " + d + " = " + f + "(n - 1); return c }, \"a\")\n" + in + "\treturn " + d + " + 1\n" + in + "}\n" +
			in + "log(" + f + "(" + fmt.Sprint(12+g.t.Draw(40)) + "))\n"
	case 6: // a Go builtin module function with internal look-ups
		zone := []string{"\"UTC\"", "\"\"", "\"Local\"", fmt.Sprintf("\"Etc/GMT+%d\"", 1+g.t.Draw(12)), fmt.Sprintf("\"Etc/GMT-%d\"", 1+g.t.Draw(14)), fmt.Sprintf("\"No/Such%d\"", g.t.Draw(30))}[g.t.Draw(6)]
		e := g.fresh("err")
		return in + "try {\n" + in + "\tlog(string(import(\"time\").LoadLocation(" + zone + ")))\n" + in + "} catch " + e + " {\n" + in + "\tlog(\"no such zone\")\n" + in + "}\n"
	case 5: // a runtime error built from a process-wide sentinel (ZeroDivisionError): deriving a new error from it must not touch the sentinel
		e2 := g.fresh("err")
		return in + "try {\n" + in + "\tlog(7 / (len(WID) - len(WID)))\n" + in + "} catch " + e + " {\n" + in + "\tlog(" + e + ".New(WID + \"-derived\").Message, " + e + ".Message)\n" + in + "}\n" +
			in + "try {\n" + in + "\tlog(9 / (len(WID) - len(WID)))\n" + in + "} catch " + e2 + " {\n" + in + "\tlog(" + e2 + ".Name, " + e2 + ".Message)\n" + in + "}\n"
	case 0: // error thrown inside a fixed module file, position resolved without fmt
		return in + "try {\n" + in + "\timport(\"modB\").boom(" + g.strLit() + ")\n" + in + "} catch " + e + " {\n" + in + "\tlog(" + e + ".Message, trace(" + e + "))\n" + in + "}\n"
	case 1: // error thrown in main, resolved through fmt as well
		return in + "try {\n" + in + "\tthrow " + g.strLit() + "\n" + in + "} catch " + e + " {\n" + in + "\tlog(trace(" + e + "), sprintf(\"%+v\", " + e + "))\n" + in + "}\n"
	case 2: // write to a builtin-module value, read it back
		m := g.fresh("m")
		return in + m + " := import(\"host\")\n" + in + m + ".arr[" + fmt.Sprint(g.t.Draw(3)) + "] = len(WID) * " + fmt.Sprint(1+g.t.Draw(9)) + "\n" + in + m + ".map[WID] = " + g.exprNoVars(tInt, 1) + "\n" + in + "log(" + m + ".arr, " + m + ".map)\n"
	case 3: // error inside a generated module, if any
		if len(g.gmods) > 0 {
			m := g.gmods[g.t.Draw(len(g.gmods))]
			for _, f := range m.fns {
				if f.name == "fail" {
					return in + "try {\n" + in + "\timport(\"" + m.name + "\").fail()\n" + in + "} catch " + e + " {\n" + in + "\tlog(trace(" + e + "))\n" + in + "}\n"
				}
			}
		}
		fallthrough
	default: // callback through a pooled child VM (strings.Map acquires and releases)
		return in + "log(import(\"strings\").Map(func(c) { return c + len(WID) }, " + g.strLit() + "))\n"
	}
}

// importStmt imports a generated, fixed, host or stdlib module into a variable.
func (g *gen) importStmt(lvl int) string {
	name := g.fresh("m")
	if g.t.Bool(1, 24) {
		// a source module of size zero (its value is undefined)
		return ind(lvl) + name + " := import(\"" + []string{"modEmpty", "modBlank"}[g.t.Draw(2)] + "\")\n" + ind(lvl) + "log(" + name + ")\n"
	}
	if g.t.Bool(1, 12) {
		g.features["import-host2"] = true
		return ind(lvl) + name + " := import(\"host2\")\n" + ind(lvl) + "log(" + name + ".double(" + g.expr(tInt, 1) + "), " + name + ".str)\n"
	}
	switch k := g.t.Draw(4 + len(g.gmods)); {
	case k == 0:
		g.declare(gvar{name: name, t: tMap, konst: true, mod: &gmod{name: name, fns: []gvar{
			{name: "inc", t: tFn, ret: tInt}, {name: "get", t: tFn, ret: tInt}}}})
		g.features["import-fixed"] = true
		return ind(lvl) + name + " := import(\"modA\")\n"
	case k == 1:
		g.declare(gvar{name: name, t: tMap, konst: true, mod: &gmod{name: name, fns: []gvar{
			{name: "double", t: tFn, arity: 1, ret: tInt}}}})
		g.features["import-host"] = true
		s := ind(lvl) + name + " := import(\"host\")\n"
		if g.cfg.HostState && g.t.Bool(1, 2) {
			// a module function and a module value sharing one Go object
			s += ind(lvl) + "log(" + name + ".bump(), " + name + ".state.n)\n"
		}
		if g.t.Bool(1, 2) {
			s += ind(lvl) + name + ".arr[" + fmt.Sprint(g.t.Draw(3)) + "] = " + g.exprNoVars(tInt, 1) + "\n"
			s += ind(lvl) + "log(" + name + ".arr, " + name + ".map, " + name + ".nzero, " + name + ".str, " + name + ".arrsum(), " + name + ".extra, isFunction(" + name + ".extrafn) ? " + name + ".extrafn() : 0)\n"
		}
		if g.t.Bool(1, 3) {
			// a SyncMap attribute: read, written and read again (every VM has its own copy)
			s += ind(lvl) + "log(" + name + ".sync.a)\n" + ind(lvl) + name + ".sync.a = " + g.exprNoVars(tInt, 1) + "\n" + ind(lvl) + "log(" + name + ".sync.a, len(" + name + ".emap), len(" + name + ".esync))\n"
		}
		if g.t.Bool(1, 3) {
			s += ind(lvl) + "log(" + name + "[\"\"], " + name + ".errA, " + name + ".errB, " + name + ".rterr, " + name + ".bytes, " + name + ".char, " + name + ".uint)\n"
		}
		if !g.cfg.NoTrace && g.t.Bool(1, 3) {
			e := g.fresh("err")
			s += ind(lvl) + "try {\n" + ind(lvl+1) + "import(\"modC\")\n" + ind(lvl) + "} catch " + e + " {\n" + ind(lvl+1) + "log(" + e + ".Message, trace(" + e + "))\n" + ind(lvl) + "}\n"
		}
		return s
	case k == 2:
		g.declare(gvar{name: name, t: tMap, konst: true, mod: &gmod{name: name, fns: []gvar{
			{name: "ToUpper", t: tFn, arity: 0, ret: tAny}}}})
		g.features["import-strings"] = true
		return ind(lvl) + name + " := import(\"strings\")\n" + ind(lvl) + "log(" + name + ".Repeat(" + g.expr(tStr, 1) + ", 2), " + name + ".Map(func(c) { return c + 1 }, " + g.strLit() + "))\n"
	case k == 3:
		g.features["import-json"] = true
		s := ind(lvl) + name + " := import(\"json\")\n" + ind(lvl) + "log(string(" + name + ".Marshal(" + g.expr(tArr, 1) + ")))\n"
		if g.t.Bool(1, 3) {
			// an encoding that fails part-way (infinity is not representable), then one that succeeds
			e := g.fresh("err")
			s += ind(lvl) + "try {\n" + ind(lvl+1) + "log(string(" + name + ".Marshal([1, \"two\", {k: [3]}, 1e308 * 1e308, 5])))\n" + ind(lvl) + "} catch " + e + " {\n" + ind(lvl+1) + "log(\"marshal failed\")\n" + ind(lvl) + "}\n"
			s += ind(lvl) + "log(string(" + name + ".Marshal({k: [1, " + g.strLit() + "]})))\n"
		}
		return s
	default:
		m := g.gmods[k-4]
		g.declare(gvar{name: name, t: tMap, konst: true, mod: &gmod{name: name, fns: m.fns}})
		g.features["import-generated"] = true
		return ind(lvl) + name + " := import(\"" + m.name + "\")\n"
	}
}

// genModule generates a source module named gmodN with private state and
// exported functions; it may import earlier generated modules.
func (g *gen) genModule(idx int) {
	name := fmt.Sprintf("gmod%d", idx)
	sub := &gen{t: g.t, cfg: g.cfg, scopes: [][]gvar{nil}, features: g.features, inModule: true, nvar: 1000 * (idx + 1)}
	var sb strings.Builder
	if idx > 0 && g.t.Bool(1, 2) {
		dep := g.gmods[g.t.Draw(len(g.gmods))]
		dv := sub.fresh("dep")
		sb.WriteString(dv + " := import(\"" + dep.name + "\")\n")
		sub.declare(gvar{name: dv, t: tMap, konst: true, mod: &gmod{name: dv, fns: dep.fns}})
	}
	sb.WriteString("state := " + sub.intLit() + "\n")
	sub.declare(gvar{name: "state", t: tInt})
	n := 1 + g.t.Draw(3)
	m := &gmod{name: name}
	var fields []string
	for i := 0; i < n; i++ {
		fname := fmt.Sprintf("fn%d", i)
		lit, sig := sub.funcLit(0, "")
		sig.name = fname
		sb.WriteString(fname + " := " + lit + "\n")
		m.fns = append(m.fns, sig)
		fields = append(fields, fname+": "+fname)
	}
	sb.WriteString("bump := func() { state++; return state }\n")
	m.fns = append(m.fns, gvar{name: "bump", t: tFn, ret: tInt})
	fields = append(fields, "bump: bump")
	if g.t.Bool(1, 3) {
		sb.WriteString("fail := func() { throw error(\"from " + name + "\") }\n")
		m.fns = append(m.fns, gvar{name: "fail", t: tFn, ret: tInt})
		fields = append(fields, "fail: fail")
	}
	sb.WriteString("return {" + strings.Join(fields, ", ") + "}\n")
	g.mods = append(g.mods, srcModule{name, sb.String()})
	g.gmods = append(g.gmods, m)
}

// program generates a whole main script. The top-level statements are also
// kept in g.Top; the text returned ends with a return of all live top-level
// variables so that state is observable through the result.
func (g *gen) addTop(st string) {
	g.Top = append(g.Top, st)
	var names []string
	for _, v := range g.scopes[0] {
		if v.t == tFn || v.mod != nil {
			continue
		}
		names = append(names, v.name)
	}
	g.TopVars = append(g.TopVars, names)
}

func (g *gen) program() (string, []srcModule) {
	if g.cfg.GlobalVar || g.cfg.NilGlobals {
		g.declare(gvar{name: "GV", t: tInt})
	}
	if g.cfg.Params {
		g.declare(gvar{name: "PA", t: tInt})
		g.declare(gvar{name: "PB", t: tStr})
	}
	if g.cfg.VarParams {
		g.declare(gvar{name: "PR", t: tArr})
	}
	if g.cfg.Modules {
		for i, n := 0, g.t.Draw(3); i < n; i++ {
			g.genModule(i)
		}
	}
	if g.cfg.ManyVars && g.t.Bool(1, 3) {
		// many top-level variables: later declarations land in high slot numbers
		k := 15 + g.t.Draw(12)
		var parts []string
		for i := 0; i < k; i++ {
			nm := g.fresh("q")
			parts = append(parts, nm+" = "+fmt.Sprint(i))
			g.declare(gvar{name: nm, t: tInt})
		}
		g.addTop("var (" + strings.Join(parts, ", ") + ")\n")
	}
	n := 3 + g.t.Draw(g.cfg.MaxStmts)
	for i := 0; i < n; i++ {
		if g.cfg.Modules && i < 3 && g.t.Bool(1, 2) {
			g.addTop(g.importStmt(0))
			continue
		}
		if i == 1 && g.t.Bool(1, 3) {
			a, b, c := g.fresh("K"), g.fresh("K"), g.fresh("K")
			st := "const (\n\t" + a + " = iota\n\t" + b + "\n\t" + c + " = " + g.strLit() + "\n)\n"
			g.declare(gvar{name: a, t: tInt, konst: true})
			g.declare(gvar{name: b, t: tInt, konst: true})
			g.declare(gvar{name: c, t: tStr, konst: true})
			g.addTop(st)
			continue
		}
		if i == 2 && g.t.Bool(1, 3) {
			a, b := g.fresh("w"), g.fresh("w")
			st := "var (" + a + " = " + g.expr(tInt, 1) + ", " + b + ")\n"
			g.declare(gvar{name: a, t: tInt})
			g.declare(gvar{name: b, t: tAny})
			g.addTop(st)
			continue
		}
		if g.cfg.FuncTwins && g.t.Bool(1, 5) {
			if g.twins < 4 && (g.twins < 2 || g.t.Bool(1, 2)) {
				name := fmt.Sprintf("tw%d", g.twins)
				g.twins++
				g.declare(gvar{name: name, t: tFn, arity: 1, ret: tInt, konst: true})
				g.addTop(name + " := func(x) { return x + 1 }\n")
			} else {
				a, b := g.t.Draw(g.twins), g.t.Draw(g.twins)
				g.addTop(fmt.Sprintf("log(tw%d == tw%d, tw%d != tw%d, contains([tw%d], tw%d))\n", a, b, b, a, a, b))
			}
			continue
		}
		if g.cfg.ShadowBuiltins && g.t.Bool(1, 6) {
			// a user definition takes over a builtin name for the rest of the script
			// (only builtins the generator never calls by itself: using a builtin and declaring its name later in the
			// same compile unit is a compile error that depends on whether the optimizer folded the use away)
			name := []string{"isChar", "bool", "uint", "chars", "isInt", "isString", "isMap", "isUndefined"}[g.t.Draw(8)]
			body := []string{"return 42", "return \"shadowed\"", "return [x]", "return x"}[g.t.Draw(4)]
			if g.t.Bool(1, 2) {
				g.addTop(name + " := func(x, ...y) { " + body + " }\n")
			} else {
				g.addTop("var " + name + " = func(x, ...y) { " + body + " }\n")
			}
			g.addTop("log(" + name + "(\"abc\"), " + name + "(7))\n")
			if b := body; b == "return 42" || b == "return x" {
				// the rebound name called inside constant-looking arithmetic
				k := "1"
				if ks := g.vars(tInt); len(ks) > 0 && g.t.Bool(1, 2) {
					for _, v := range ks {
						if v.konst && strings.HasPrefix(v.name, "K") {
							k = v.name
							break
						}
					}
				}
				g.addTop("log(" + name + "(7) + " + k + ", 2 * " + name + "(3))\n")
			}
			continue
		}
		g.addTop(g.stmt(0))
	}
	if g.cfg.CallMark && !g.features["call"] {
		// make sure every CallMark script has marked call sites
		g.addTop("fz := func(a, ...b) { zc := a; return func(x) { zc += x + len(b); return zc } }\n" +
			"fy := \x01fz\x02" + g.expr(tInt, 1) + ", 2\x03\n" +
			"log(\x01fy\x023\x03, \x042\x02fy\x02" + g.expr(tInt, 1) + "\x03)\n")
	}
	if g.cfg.CallMark && g.t.Bool(1, 2) {
		// callees that are not compiled functions: a builtin and a host function go through Invoker.invokeObject
		g.addTop("log(\x01len\x02[1, 2, " + g.expr(tInt, 1) + "]\x03, \x01typeName\x02" + g.expr(tAny, 1) + "\x03, \x01string\x02" + g.expr(tInt, 1) + "\x03)\n" +
			"try { log(\x01choose\x022\x03) } catch e { log(e.Message) }\n")
	}
	if g.cfg.CallMark && g.t.Bool(1, 2) {
		// a batch on one handle in which some items fail and later ones must still succeed
		bad := g.t.Draw(4)
		g.addTop(fmt.Sprintf("ze := 0\nfe := func(x) { if x == %d { throw \"bad item\" }; ze += x; return ze }\nlog(\x05fe\x020, 1, 2, 3, %d\x03, ze)\n", bad, g.t.Draw(4)))
	}
	if g.cfg.CallMark && g.t.Bool(1, 3) {
		// a function that hands out a container it keeps: the caller's writes through the result are the keeper's
		if g.t.Bool(1, 2) {
			g.addTop("zreg := {n: 0}\nzget := func() { return zreg }\nzr := \x01zget\x02\x03\nzr.n = " + fmt.Sprint(1+g.t.Draw(9)) + "\nlog(zreg.n, zget().n)\n")
		} else {
			g.addTop("zarr := [0, 1]\nzga := func() { return zarr }\nza := \x01zga\x02\x03\nza[1] = " + fmt.Sprint(2+g.t.Draw(9)) + "\nlog(zarr, zga())\n")
		}
	}
	if g.cfg.CallMark && g.t.Bool(1, 4) {
		// a Go panic (integer remainder by a run-time zero) raised inside the invoked function, under its own handlers
		g.addTop("zpz := 0\nzpn := 0\nzpf := func(i) {\n\ttry {\n\t\treturn i % zpz\n\t} catch e {\n\t\treturn \"caught\"\n\t} finally {\n\t\tzpn++\n\t}\n}\nlog(\x01zpf\x027\x03, zpn)\n")
	}
	if g.cfg.CallMark && g.t.Bool(1, 10) {
		// a long history of invocations on one root VM
		g.addTop(fmt.Sprintf("zlf := func(x) { return x + 1 }\nzls := 0\nfor zli := 0; zli < %d; zli++ { zls += \x01zlf\x02zli\x03 }\nlog(zls)\n", 260+g.t.Draw(400)))
	}
	if g.cfg.CallMark && g.t.Bool(1, 3) {
		// a stateful module whose first import of the run may happen inside a function invoked from Go
		g.addTop("fzm := func() { zm := import(\"modA\"); return zm.inc() }\n" +
			"log(\x01fzm\x02\x03, \x01fzm\x02\x03)\nlog(import(\"modA\").get())\n")
	}
	if g.cfg.VarParams && g.t.Bool(2, 3) {
		g.addTop(fmt.Sprintf("if len(PR) > %d { PR[%d] = len(WID) * %d }\nlog(PR)\n", 1+g.t.Draw(2), g.t.Draw(2), 2+g.t.Draw(7)))
	}
	g.addTop(g.probe())
	pr := ""
	if g.cfg.VarParams {
		pr = ", ...PR"
	}
	if g.cfg.NilGlobals {
		return "param (PA, PB, log, op, choose, call, trace, WID" + pr + ")\nglobal GV\nGV = PA*7 + 1\n" + strings.Join(g.Top, ""), g.mods
	}
	if g.cfg.Params {
		return sim.Prelude + "param (PA, PB" + pr + ")\n" + strings.Join(g.Top, ""), g.mods
	}
	return sim.Prelude + strings.Join(g.Top, ""), g.mods
}

// probe returns a `return [...]` of all visible top-level variables.
func (g *gen) probe() string {
	var names []string
	for _, v := range g.scopes[0] {
		if v.t == tFn || v.mod != nil {
			continue
		}
		names = append(names, v.name)
	}
	return "return [" + strings.Join(names, ", ") + "]\n"
}

// renderCalls resolves the call placeholders of a CallMark script: viaHost
// false renders in-script calls, true renders calls through the Invoker.
func renderCalls(src string, viaHost bool) string {
	var sb strings.Builder
	for i := 0; i < len(src); i++ {
		c := src[i]
		if c != 1 && c != 4 && c != 5 {
			sb.WriteByte(c)
			continue
		}
		// find the matching end marker (placeholders nest inside argument lists)
		depth, j := 0, i+1
		for ; j < len(src); j++ {
			if src[j] == 1 || src[j] == 4 || src[j] == 5 {
				depth++
			} else if src[j] == 3 {
				if depth == 0 {
					break
				}
				depth--
			}
		}
		inner := src[i+1 : j]
		// split at top-level \x02
		var parts []string
		d, last := 0, 0
		for k := 0; k < len(inner); k++ {
			switch inner[k] {
			case 1, 4, 5:
				d++
			case 3:
				d--
			case 2:
				if d == 0 {
					parts = append(parts, inner[last:k])
					last = k + 1
				}
			}
		}
		parts = append(parts, inner[last:])
		for k := range parts {
			parts[k] = renderCalls(parts[k], viaHost)
		}
		if c == 5 {
			name, items := parts[0], parts[1]
			if viaHost {
				sb.WriteString("calleach(" + name + ", " + items + ")")
			} else {
				sb.WriteString("(func(...cea) { cer := []; for cei, cev in cea { try { cer = append(cer, " + name + "(cev)) } catch { cer = append(cer, \"err\") } }; return cer })(" + items + ")")
			}
		} else if c == 1 {
			name, args := parts[0], parts[1]
			if viaHost {
				if args == "" {
					sb.WriteString("call(" + name + ")")
				} else {
					sb.WriteString("call(" + name + ", " + args + ")")
				}
			} else {
				sb.WriteString(name + "(" + args + ")")
			}
		} else {
			// (in script every repetition passes a fresh argument array: a variadic callee called with a spread array
			// receives that very array, so what it writes into its parameter would otherwise reach the next repetition,
			// which an Invoker, copying its arguments, never shows)
			n, name, args := parts[0], parts[1], parts[2]
			if viaHost {
				if args == "" {
					sb.WriteString("callrep(" + name + ", " + n + ")")
				} else {
					sb.WriteString("callrep(" + name + ", " + n + ", " + args + ")")
				}
			} else {
				sb.WriteString("(func(...cra) { crr := undefined; for cri := 0; cri < " + n + "; cri++ { crr = " + name + "(...append([], ...cra)) }; return crr })(" + args + ")")
			}
		}
		i = j
	}
	return sb.String()
}
