package engines

import (
	"bytes"
	"fmt"
	"strings"

	"github.com/ozanh/ugo"
	"github.com/ozanh/ugo/encoder"
	"verif/sim"
)

// C08 — many VMs may run one Bytecode concurrently.
//
// Simulator-owned: the interleaving of N VMs at instruction granularity and
// the recycling of pooled child VMs across them. Oracles: isolation (each VM's
// outcome equals its solo outcome), no data race (race arm), shared program
// unchanged (semantic fingerprint).

// c08Args are the per-VM run arguments (bound to `param (PA, PB)`).
func c08Args(i int) []ugo.Object {
	return []ugo.Object{ugo.Int(i*7 + 1), ugo.String(c08WIDs[i] + "-arg")}
}

// c08Surplus are the arguments behind the fixed ones (bound to `...PR` of scripts generated with VarParams).
func c08Surplus(i int) []ugo.Object {
	return []ugo.Object{ugo.Int(100 + i), ugo.String("extra"), ugo.Int(i)}
}

var c08WIDs = []string{"w0", "vm-one", "thirdVM", "x"}

type c08Result struct {
	out   sim.Outcome
	trace string
}

// c08RunOne runs the bytecode on a fresh VM in world w and returns outcome
// plus the resolved stack trace of an uncaught error (pool-free route to
// SourceFileSet.Position).
func c08RunOne(bc *ugo.Bytecode, w *sim.World, args []ugo.Object) c08Result {
	return c08RunVM(ugo.NewVM(bc).SetRecover(true), w, args)
}

func c08RunVM(vm *ugo.VM, w *sim.World, args []ugo.Object) c08Result {
	return c08RunVMG(vm, w, w.Globals, args)
}

func c08RunVMG(vm *ugo.VM, w *sim.World, globals ugo.Object, args []ugo.Object) c08Result {
	ret, err := vm.Run(globals, args...)
	res := c08Result{out: sim.MakeOutcome(ret, err, w.Hist)}
	if re, ok := err.(*ugo.RuntimeError); ok {
		var sb strings.Builder
		for _, p := range re.StackTrace() {
			fmt.Fprintf(&sb, "%s:%d:%d;", p.Filename, p.Line, p.Column)
		}
		res.trace = sb.String()
	}
	return res
}

// c08RunVMNil runs a script generated with NilGlobals: no globals object, host functions as trailing arguments.
func c08RunVMNil(vm *ugo.VM, w *sim.World, args []ugo.Object) c08Result {
	a := append([]ugo.Object{}, args[:2]...)
	for _, n := range []string{"log", "op", "choose", "call", "trace", "WID"} {
		a = append(a, w.Globals[n])
	}
	a = append(a, args[2:]...)
	return c08RunVMG(vm, w, nil, a)
}

func c08Run(rc *sim.RunCtx) {
	t := rc.T
	// in a fifth of the runs the host passes no globals object (every VM then gets a map of its own from ugo)
	nilGlobals := t.Bool(1, 5)
	runVM := c08RunVM
	if nilGlobals {
		runVM = c08RunVMNil
		rc.Probe("vms-run-with-nil-globals")
	}
	// in a quarter of the others the host hands one and the same argument slice to every VM (`vm.Run(g, job...)`)
	sharedArgs := !nilGlobals && t.Bool(1, 4)
	argsFor := func(i int) []ugo.Object {
		if sharedArgs {
			i = 0
		}
		return append(c08Args(i), c08Surplus(i)...)
	}
	g := newGen(t, genConfig{Modules: true, Hosts: true, Consts: t.Bool(1, 2), Share: true, Params: true, VarParams: true, NilGlobals: nilGlobals, MaxStmts: 8})
	src, mods := g.program()
	mm := newModuleMap(append(append([]srcModule{}, fixedModules...), mods...))
	noOpt := t.Bool(1, 3)
	bc, err := compile(src, mm, noOpt, 0)
	if err != nil {
		rc.Discard = "compile-error"
		rc.Logf("compile: %v", err)
		return
	}
	roundTrip := t.Bool(1, 4)
	if roundTrip {
		var buf bytes.Buffer
		if err := encoder.EncodeBytecodeTo(bc, &buf); err != nil {
			rc.Discard = "encode-error"
			return
		}
		dbc, err := encoder.DecodeBytecodeFrom(&buf, mm)
		if err != nil {
			rc.Discard = "decode-error"
			rc.Logf("decode: %v", err)
			return
		}
		bc = dbc
	}
	fpBefore := sim.Fingerprint(bc)
	n := 2 + t.Draw(3)
	specs := make([]*sim.WorldSpec, n)
	for i := range specs {
		specs[i] = sim.DrawWorldSpec(t, c08WIDs[i], 4, 3, 2, []sim.FaultKind{sim.FGoErr, sim.FUgoErr, sim.FPanicStr}, 3, 16)
	}
	// The solo (reference) runs use a deterministic pool too (always fresh), so that recycling is the concurrent run's
	// variable. In half of the runs they come AFTER the concurrent phase: whatever ugo initialises lazily or caches
	// process-wide is then first touched by several VMs at once.
	solo := make([]c08Result, n)
	runSolo := func() bool {
		pool := &sim.SimPool{T: t, Always: 1}
		restore := pool.Install()
		defer restore()
		sc := &sim.StepCounter{Cap: 60000}
		restoreHook := sc.Install()
		defer restoreHook()
		capped := false
		for i := range specs {
			sc.Steps = 0
			a := runVM(ugo.NewVM(bc).SetRecover(true), sim.NewWorld(specs[i], nil), argsFor(i))
			capped = capped || sc.Capped
			sc.Steps = 0
			b := runVM(ugo.NewVM(bc).SetRecover(true), sim.NewWorld(specs[i], nil), argsFor(i))
			capped = capped || sc.Capped
			if !a.out.Equal(b.out) || a.trace != b.trace {
				if sim.Fingerprint(bc) != fpBefore {
					// the first of two solo runs changed what the second one executed
					rc.Decoded = map[string]any{"script": src, "first": a.out.String(), "second": b.out.String()}
					rc.Fail("bytecode-modified", "bytecode-modified", "running the script once changed the shared Bytecode: a second VM run afterwards behaves differently\n first:  %s\n second: %s\nscript:\n%s", a.out, b.out, src)
					return false
				}
				rc.Discard = "workload-not-self-deterministic"
				rc.Logf("solo runs differ: %s vs %s", a.out, b.out)
				return false
			}
			solo[i] = a
		}
		if capped {
			rc.Discard = "workload-too-long"
			return false
		}
		return true
	}
	concurrentFirst := t.Bool(1, 2)
	if !concurrentFirst && !runSolo() {
		return
	}

	s := sim.NewSched(t)
	s.MaxSteps = 400000
	pool := &sim.SimPool{T: t}
	restore := pool.Install()
	defer restore()
	conc := make([]c08Result, n)
	worlds := make([]*sim.World, n)
	vms := make([]*ugo.VM, n)
	shared := argsFor(0)
	if sharedArgs {
		rc.Probe("one-argument-slice-for-all-vms")
	}
	for i := 0; i < n; i++ {
		i := i
		worlds[i] = sim.NewWorld(specs[i], nil)
		vms[i] = ugo.NewVM(bc).SetRecover(true)
		s.Go("vm-"+c08WIDs[i], func() {
			a := argsFor(i)
			if sharedArgs {
				a = shared
			}
			conc[i] = runVM(vms[i], worlds[i], a)
		})
	}
	// in a quarter of the runs the host aborts one VM at a drawn instruction: the others must not notice
	victim := -1
	if t.Bool(1, 4) {
		victim = t.Draw(n)
		at := int64(1 + t.Draw(600))
		aborter := s.Go("aborter", func() {
			s.Point(sim.PStartWait)
			vms[victim].Abort()
		})
		s.Enabled = func(s *sim.Sched, th *sim.SimThread) bool {
			if th == aborter && th.Point() == sim.PStartWait {
				return s.Thread(victim).Loops() >= at || s.Thread(victim).Done()
			}
			return true
		}
	}
	mode := t.Draw(4)
	s.Quantum = func(t *sim.Tape) int32 {
		switch mode {
		case 0:
			return 1
		case 1:
			return int32(1 + t.Draw(4))
		case 2:
			return int32(1 + t.Draw(32))
		}
		// geometric-ish: mostly short, sometimes long
		if t.Bool(1, 8) {
			return int32(1 + t.Draw(200))
		}
		return int32(1 + t.Draw(3))
	}
	if err := s.Run(); err != nil {
		rc.Fatal = true
		rc.Fail("hang", "hang", "a simulated thread blocked for real: %v", err)
		return
	}
	rc.Steps = s.TotalLoops()
	if concurrentFirst {
		restore() // the solo runs install their own pool
		ok := runSolo()
		restore = pool.Install()
		if !ok {
			return
		}
		rc.Probe("concurrent-phase-before-solo-runs")
	}
	if s.Degraded() {
		rc.Degraded = true
		rc.Probe("degraded-schedule(un-modelled blocking met)")
	}
	tracers := 0
	for _, w := range worlds {
		for _, h := range w.Hist {
			if strings.Contains(h, "modB:") || strings.Contains(h, "gmod") {
				tracers++
				break
			}
		}
	}
	for _, w := range worlds {
		for _, f := range w.Fired {
			rc.Fault("host-" + f.Kind.String())
		}
	}
	for i := 0; i < s.Switches; i++ {
		rc.Fault("preemption")
	}
	for i := 0; i < pool.Recycled; i++ {
		rc.Fault("pool-recycle")
	}
	if tracers >= 2 {
		rc.Probe("two-vms-resolved-positions-in-module-files")
	}
	if pool.Recycled > 0 {
		rc.Probe("child-vm-recycled")
	}
	if roundTrip {
		rc.Probe("bytecode-after-encode-decode")
	}
	rc.Logf("n=%d trace=%016x switches=%d steps=%d", n, s.TraceHash(), s.Switches, rc.Steps)
	for i := range conc {
		rc.Logf("vm%d %s", i, conc[i].out)
	}
	if s.Switches >= 2 {
		rc.Sig = fmt.Sprintf("%016x", s.SwitchHash())
		if rc.Index%37 == 0 {
			rc.Sample = map[string]any{"vms": n, "script": src, "context_switches": s.Switches, "instructions": rc.Steps, "recycled_child_vms": pool.Recycled, "quantum_mode": mode}
		}
	}
	decoded := func() map[string]any {
		d := map[string]any{"script": src, "vms": n, "optimizer_off": noOpt, "round_trip": roundTrip, "switches": s.Switches}
		var ms []string
		for _, m := range mods {
			ms = append(ms, "// "+m.Name+"\n"+m.Src)
		}
		d["modules"] = ms
		return d
	}
	if s.Deadlock != "" || s.Overrun {
		rc.Decoded = decoded()
		rc.Fail("no-progress", "concurrent-run-does-not-finish", "deadlock=%q overrun=%v", s.Deadlock, s.Overrun)
		return
	}
	if victim >= 0 {
		rc.Fault("abort-of-one-vm")
	}
	for i := range conc {
		if i == victim {
			continue // its outcome depends on where the abort landed
		}
		if !conc[i].out.Equal(solo[i].out) || conc[i].trace != solo[i].trace {
			rc.Decoded = decoded()
			kind := "outcome"
			if conc[i].out.Kind == solo[i].out.Kind && conc[i].out.Value == solo[i].out.Value {
				kind = "history"
				if conc[i].trace != solo[i].trace {
					kind = "trace"
				}
			}
			rc.Fail("isolation", "isolation:"+kind, "VM %d (%s) of %d: concurrent run differs from solo run\n solo:       %s trace=%s\n concurrent: %s trace=%s\nscript:\n%s",
				i, c08WIDs[i], n, solo[i].out, solo[i].trace, conc[i].out, conc[i].trace, src)
			return
		}
	}
	if fp := sim.Fingerprint(bc); fp != fpBefore {
		rc.Decoded = decoded()
		rc.Fail("bytecode-modified", "bytecode-modified", "the shared Bytecode changed while VMs ran it\nscript:\n%s", src)
		return
	}
	if sharedArgs && sim.Canon(ugo.Array(shared)) != sim.Canon(ugo.Array(argsFor(0))) {
		rc.Decoded = decoded()
		rc.Fail("isolation", "isolation:host-arguments-modified", "the argument slice the host passed to every VM was modified by the scripts: %s instead of %s\nscript:\n%s", sim.Canon(ugo.Array(shared)), sim.Canon(ugo.Array(argsFor(0))), src)
	}
}

func init() {
	sim.Register(&sim.Engine{
		ID:    "C08",
		Level: "exploration",
		Rule: "each run compiles one generated script (closures, imports of generated/fixed source modules and builtin modules, thrown errors resolved with trace() and sprintf(\"%+v\"), writes to builtin-module values, callbacks through pooled child VMs; sometimes after an encode/decode round trip) " +
			"and runs it on 2–4 VMs, each on its own simulated thread with its own world (different WID, fault table, choices); thread choice and quantum are drawn at every hook point; in a quarter of the runs the host aborts one of the VMs at a drawn instruction. " +
			"Oracles: every VM's outcome, history and resolved error trace equal its solo run; the Bytecode's semantic fingerprint is unchanged; in the race arm the Go race detector must stay silent. " +
			"Non-trivial = at least 2 context switches; distinct = distinct context-switch sequences.",
		Assumptions: []string{
			"workloads whose two solo runs differ are discarded (counted)",
			"a race reachable only through a pooled library call (fmt) can be masked by that pool's own synchronisation under hand-off scheduling; every shared structure therefore also has a pool-free route (trace(), StackTrace() in the harness)",
			"code between two hook points is atomic for the scheduler; sub-instruction interleavings are judged by the race detector's happens-before analysis only",
		},
		Real:      []string{"compiler", "VM", "Invoker/vmPool", "parser.SourceFileSet", "encoder (round-trip runs)", "stdlib strings/fmt/json"},
		Simulated: []string{"goroutine scheduling", "child-VM sync.Pool policy", "host functions and their failures"},
		Runs: func(tier string) int {
			if tier == "thorough" {
				return 1000000
			}
			return 12000
		},
		RaceRuns: func(tier string) int {
			if tier == "thorough" {
				return 120000
			}
			return 3200
		},
		Run:          c08Run,
		ShrinkBudget: 800,
		WallCap: func(tier string) float64 {
			if tier == "thorough" {
				return 1500
			}
			return 150
		},
	})
}
