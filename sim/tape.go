// Package sim is the deterministic-simulation core: choice tape, shrinker,
// scheduler, host world, canonical printer, runner and evidence writer.
package sim

import (
	"encoding/binary"
	"hash/fnv"
)

// Tape is the single source of every decision of a simulated run. In search
// mode it is extended on demand from a seeded generator; in replay mode it is
// read from a recorded slice and yields 0 once exhausted (0 is by construction
// the simplest choice: no switch, no fault, smallest value).
type Tape struct {
	Vals   []uint64
	pos    int
	state  uint64
	replay bool
}

// NewTape returns a search-mode tape seeded from (seed, property, run index).
func NewTape(seed int64, prop string, run int) *Tape {
	h := fnv.New64a()
	var b [16]byte
	binary.LittleEndian.PutUint64(b[:8], uint64(seed))
	binary.LittleEndian.PutUint64(b[8:], uint64(run))
	h.Write(b[:])
	h.Write([]byte(prop))
	return &Tape{state: h.Sum64() | 1}
}

// ReplayTape returns a tape that replays vals.
func ReplayTape(vals []uint64) *Tape {
	return &Tape{Vals: append([]uint64(nil), vals...), replay: true}
}

//go:norace
func (t *Tape) next64() uint64 { // splitmix64
	t.state += 0x9E3779B97F4A7C15
	z := t.state
	z = (z ^ (z >> 30)) * 0xBF58476D1CE4E5B9
	z = (z ^ (z >> 27)) * 0x94D049BB133111EB
	return z ^ (z >> 31)
}

// push appends without runtime slice helpers: those are race-instrumented and
// the tape is used by the scheduler and by simulated threads alternately.
//
//go:norace
func (t *Tape) push(v uint64) {
	n := len(t.Vals)
	if n == cap(t.Vals) {
		nc := 2 * n
		if nc < 64 {
			nc = 64
		}
		nv := make([]uint64, n, nc)
		for i := 0; i < n; i++ {
			nv[i] = t.Vals[i]
		}
		t.Vals = nv
	}
	t.Vals = t.Vals[:n+1]
	t.Vals[n] = v
}

// Draw returns a value in [0,n). n==0 returns 0 without consuming.
//
//go:norace
func (t *Tape) Draw(n int) int {
	if n <= 1 {
		return 0
	}
	var v uint64
	if t.replay {
		if t.pos < len(t.Vals) {
			v = t.Vals[t.pos]
			if v >= uint64(n) {
				v = uint64(n) - 1
				t.Vals[t.pos] = v
			}
		} else {
			t.push(0)
		}
		t.pos++
		return int(v)
	}
	v = t.next64() % uint64(n)
	t.push(v)
	t.pos++
	return int(v)
}

// Bool is true with probability num/den. 0 on the tape means false.
//
//go:norace
func (t *Tape) Bool(num, den int) bool {
	if num <= 0 {
		return false
	}
	if num >= den {
		return true
	}
	// value 0..den-1; true for the top `num` values so that 0 stays "false".
	return t.Draw(den) >= den-num
}

// Range returns a value in [lo,hi].
//
//go:norace
func (t *Tape) Range(lo, hi int) int {
	if hi <= lo {
		return lo
	}
	return lo + t.Draw(hi-lo+1)
}

// Pick draws an index weighted by w; index 0 is the simplest choice.
//
//go:norace
func (t *Tape) Pick(w ...int) int {
	sum := 0
	for _, x := range w {
		sum += x
	}
	v := t.Draw(sum)
	for i, x := range w {
		if v < x {
			return i
		}
		v -= x
	}
	return len(w) - 1
}

// Used returns the prefix of the tape consumed so far.
//
//go:norace
func (t *Tape) Used() []uint64 {
	if t.pos > len(t.Vals) {
		return t.Vals
	}
	return t.Vals[:t.pos]
}

// Pos is the number of draws so far.
//
//go:norace
func (t *Tape) Pos() int { return t.pos }

// Fork derives an independent search-mode generator for bulk data that should
// not be shrunk value by value (e.g. corruption bytes); it consumes one draw.
//
//go:norace
func (t *Tape) Fork() *Tape {
	s := uint64(t.Draw(1 << 30))
	return &Tape{state: s*0x9E3779B97F4A7C15 | 1}
}

// Force records v as if it had been drawn from [0,n) (enumerated schedules
// write their decisions onto the tape so that replay and shrinking treat them
// like any other run). In replay mode it simply replays.
//
//go:norace
func (t *Tape) Force(v, n int) int {
	if t.replay {
		return t.Draw(n)
	}
	if n <= 1 {
		return 0
	}
	if v >= n {
		v = n - 1
	}
	t.push(uint64(v))
	t.pos++
	return v
}

// IsReplay reports whether the tape replays recorded values.
//
//go:norace
func (t *Tape) IsReplay() bool { return t.replay }

// Rand returns a raw 64-bit value from a forked bulk generator (never from a
// replay tape: call only on tapes returned by Fork).
//
//go:norace
func (t *Tape) Rand() uint64 { return t.next64() }
