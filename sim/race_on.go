//go:build race

package sim

import (
	"runtime"
	"unsafe"
)

// RaceBuild reports whether the race detector is compiled in.
const RaceBuild = true

func raceDisable() { runtime.RaceDisable() }
func raceEnable()  { runtime.RaceEnable() }

func raceReleaseMerge(p unsafe.Pointer) { runtime.RaceReleaseMerge(p) }
func raceAcquire(p unsafe.Pointer)      { runtime.RaceAcquire(p) }
