package sim

import (
	"errors"
	"fmt"

	"github.com/ozanh/ugo"
	"github.com/ozanh/ugo/token"
)

// ObjFault places a fault at the occ-th call of a method of host object obj.
type ObjFault struct {
	Obj    int       `json:"obj"`
	Method string    `json:"method"`
	Occ    int       `json:"occurrence"`
	Kind   FaultKind `json:"kind"`
}

// ObjMethods lists the methods of HostObj that can be made to fail.
// The first five can return an error; the rest can only panic.
var ObjMethods = []string{"binop", "indexget", "indexset", "call", "callname", "iterate", "next", "key", "value", "string", "equal", "isfalsy"}

// ObjMethodReturnsError reports whether a method has an error result.
func ObjMethodReturnsError(m string) bool {
	switch m {
	case "binop", "indexget", "indexset", "call", "callname":
		return true
	}
	return false
}

// HostObj is a simulator-owned ugo.Object whose every method can fail on command.
type HostObj struct {
	W   *World
	ID  int
	occ map[string]int
}

var _ ugo.Object = (*HostObj)(nil)
var _ ugo.NameCallerObject = (*HostObj)(nil)

// CanonID implements HostObject.
func (o *HostObj) CanonID() string { return fmt.Sprintf("obj%d", o.ID) }

func (o *HostObj) hit(method string) error {
	n := o.occ[method]
	o.occ[method] = n + 1
	o.W.Hist = append(o.W.Hist, fmt.Sprintf("obj%d.%s#%d", o.ID, method, n))
	if o.W.NoFaults {
		return nil
	}
	for _, f := range o.W.Spec.ObjFaults {
		if f.Obj == o.ID && f.Method == method && f.Occ == n {
			o.W.FiredObj = append(o.W.FiredObj, f)
			return o.W.raise(f.Kind, 100+o.ID, n, ObjMethodReturnsError(method))
		}
	}
	return nil
}

func (o *HostObj) TypeName() string { return "hostobj" }
func (o *HostObj) String() string {
	o.hit("string")
	return fmt.Sprintf("<obj%d>", o.ID)
}
func (o *HostObj) BinaryOp(tok token.Token, right ugo.Object) (ugo.Object, error) {
	if err := o.hit("binop"); err != nil {
		return nil, err
	}
	return ugo.Int(o.ID*10 + 1), nil
}
func (o *HostObj) IsFalsy() bool {
	o.hit("isfalsy")
	return false
}
func (o *HostObj) Equal(right ugo.Object) bool {
	o.hit("equal")
	return false
}
func (o *HostObj) Call(args ...ugo.Object) (ugo.Object, error) {
	if err := o.hit("call"); err != nil {
		return nil, err
	}
	return ugo.Int(o.ID*10 + 2), nil
}
func (o *HostObj) CallName(name string, c ugo.Call) (ugo.Object, error) {
	if err := o.hit("callname"); err != nil {
		return nil, err
	}
	return ugo.String(name), nil
}
func (o *HostObj) CanCall() bool    { return true }
func (o *HostObj) CanIterate() bool { return true }
func (o *HostObj) Iterate() ugo.Iterator {
	o.hit("iterate")
	return &hostIter{o: o}
}
func (o *HostObj) IndexGet(index ugo.Object) (ugo.Object, error) {
	if err := o.hit("indexget"); err != nil {
		return nil, err
	}
	return ugo.Int(o.ID*10 + 3), nil
}
func (o *HostObj) IndexSet(index, value ugo.Object) error {
	return o.hit("indexset")
}

type hostIter struct {
	o *HostObj
	i int
}

func (it *hostIter) Next() bool {
	it.o.hit("next")
	it.i++
	return it.i <= 2
}
func (it *hostIter) Key() ugo.Object {
	it.o.hit("key")
	return ugo.Int(it.i)
}
func (it *hostIter) Value() ugo.Object {
	it.o.hit("value")
	return ugo.Int(it.i * 100)
}

// raise performs the fault: error kinds return an error, panic kinds panic —
// unless the world downgrades panics, in which case the text the recovered
// panic would carry is returned as a plain error (only possible where the
// call site has an error result; otherwise the downgraded fault is a no-op).
// Raise performs a fault of the given kind outside the fault tables (engines' own host functions).
func (w *World) Raise(kind FaultKind, id, occ int) error { return w.raise(kind, id, occ, true) }

func (w *World) raise(kind FaultKind, id, occ int, canReturnError bool) (err error) {
	text := FaultText(id, occ)
	count := func(s string) {
		if w.RC != nil {
			w.RC.Fault(s)
		}
	}
	switch kind {
	case FNone:
		return nil
	case FGoErr:
		count(kind.String())
		return errors.New(text)
	case FUgoErr:
		count(kind.String())
		return &ugo.Error{Name: "HostError", Message: text}
	}
	if w.Spec.DowngradePanics {
		count("downgraded-" + kind.String())
		if !canReturnError {
			return nil
		}
		defer func() {
			if r := recover(); r != nil {
				err = fmt.Errorf("%v", r)
			}
		}()
	} else {
		count(kind.String())
	}
	switch kind {
	case FPanicStr:
		panic(text)
	case FPanicErr:
		panic(errors.New(text))
	case FPanicRT:
		if occ%2 == 0 {
			var m map[string]int
			m["x"] = 1 // assignment to entry in nil map
		}
		var s []int
		_ = s[id%7+1] // index out of range
	case FPanicObj:
		panic(PanicStruct{id, occ})
	case FPanicNilErr:
		var e *nilDerefError
		panic(error(e))
	}
	return nil
}

// nilDerefError is an error type whose Error method dereferences its receiver.
type nilDerefError struct{ msg string }

func (e *nilDerefError) Error() string { return e.msg }
