package sim

import (
	"unsafe"

	"github.com/ozanh/ugo"
)

// SimPool is the deterministic substitute for ugo's child-VM sync.Pool: which
// VM an Acquire gets (a brand-new one, the most recently released one, or an
// older released one) is drawn from the tape. The real _release zeroing still
// runs; only the choice is taken over.
type SimPool struct {
	T        *Tape
	free     [256]*ugo.VM // fixed array: manipulated without runtime slice helpers (those are race-instrumented)
	nfree    int
	Fresh    int
	Recycled int
	// Always, when non-zero, fixes the policy: 1 = always fresh, 2 = always recycle LIFO when possible.
	Always int
}

// Install makes p the pool until the returned function is called.
func (p *SimPool) Install() (restore func()) {
	pg, pp := ugo.VerifPoolGet, ugo.VerifPoolPut
	ugo.VerifPoolGet = p.get
	ugo.VerifPoolPut = p.put
	return func() { ugo.VerifPoolGet, ugo.VerifPoolPut = pg, pp }
}

//go:norace
func (p *SimPool) get() *ugo.VM {
	choice := 0
	if p.nfree > 0 {
		switch p.Always {
		case 1:
			choice = 0
		case 2:
			choice = 1
		default:
			choice = p.T.Pick(1, 2, 1)
		}
	}
	switch choice {
	case 1, 2:
		i := p.nfree - 1
		if choice == 2 {
			i = p.T.Draw(p.nfree)
		}
		vm := p.free[i]
		for j := i; j < p.nfree-1; j++ {
			p.free[j] = p.free[j+1]
		}
		p.nfree--
		p.free[p.nfree] = nil
		p.Recycled++
		raceAcquire(unsafe.Pointer(vm))
		return vm
	}
	p.Fresh++
	return ugo.VerifNewPoolVM()
}

//go:norace
func (p *SimPool) put(vm *ugo.VM) {
	raceReleaseMerge(unsafe.Pointer(vm))
	if p.nfree < len(p.free) {
		p.free[p.nfree] = vm
		p.nfree++
	}
}
