package sim

import (
	"unsafe"

	"github.com/ozanh/ugo"
)

// SimPool is the deterministic substitute for ugo's child-VM sync.Pool: which
// VM an Acquire gets (a brand-new one, the most recently released one, or an
// older released one) is drawn from the tape. The real _release zeroing still
// runs; only the choice is taken over.
type SimPool struct {
	T        *Tape
	free     []*ugo.VM
	Fresh    int
	Recycled int
	// Always, when non-zero, fixes the policy: 1 = always fresh, 2 = always recycle LIFO when possible.
	Always int
}

// Install makes p the pool until the returned function is called.
func (p *SimPool) Install() (restore func()) {
	pg, pp := ugo.VerifPoolGet, ugo.VerifPoolPut
	ugo.VerifPoolGet = p.get
	ugo.VerifPoolPut = p.put
	return func() { ugo.VerifPoolGet, ugo.VerifPoolPut = pg, pp }
}

//go:norace
func (p *SimPool) get() *ugo.VM {
	choice := 0
	if len(p.free) > 0 {
		switch p.Always {
		case 1:
			choice = 0
		case 2:
			choice = 1
		default:
			choice = p.T.Pick(1, 2, 1)
		}
	}
	switch choice {
	case 1:
		vm := p.free[len(p.free)-1]
		p.free = p.free[:len(p.free)-1]
		p.Recycled++
		raceAcquire(unsafe.Pointer(vm))
		return vm
	case 2:
		i := p.T.Draw(len(p.free))
		vm := p.free[i]
		p.free = append(p.free[:i], p.free[i+1:]...)
		p.Recycled++
		raceAcquire(unsafe.Pointer(vm))
		return vm
	}
	p.Fresh++
	return ugo.VerifNewPoolVM()
}

//go:norace
func (p *SimPool) put(vm *ugo.VM) {
	raceReleaseMerge(unsafe.Pointer(vm))
	p.free = append(p.free, vm)
}
