package sim

import (
	"errors"
	"fmt"
	"strings"

	"github.com/ozanh/ugo"
)

// FaultKind is what a host call does on a given dynamic occurrence.
type FaultKind int

const (
	FNone        FaultKind = iota
	FGoErr                 // returns a plain Go error
	FUgoErr                // returns a *ugo.Error
	FPanicStr              // panics with a string
	FPanicErr              // panics with an error value
	FPanicRT               // a real runtime.Error (nil map write / index out of range)
	FPanicObj              // panics with a custom struct
	FPanicNilErr           // panics with a typed-nil error pointer whose Error method dereferences it
	numFaultKinds
)

func (k FaultKind) String() string {
	return [...]string{"none", "go-error", "ugo-error", "panic-string", "panic-error", "panic-runtime", "panic-struct", "panic-typed-nil-error"}[k]
}

// IsPanic reports whether the kind is a Go panic.
func (k FaultKind) IsPanic() bool { return k >= FPanicStr }

// FaultAt places a fault at the occ-th dynamic call (0-based) of op(id).
type FaultAt struct {
	ID   int       `json:"op"`
	Occ  int       `json:"occurrence"`
	Kind FaultKind `json:"kind"`
}

// WorldSpec is the tape-drawn, immutable description of a host world. The
// same spec can be instantiated many times (solo run, concurrent run, used VM
// vs fresh VM, panicking vs error-returning twin).
type WorldSpec struct {
	Name      string
	Faults    []FaultAt
	Choices   [][]int // Choices[id][occurrence]
	Pooled    []bool  // Pooled[k]: k-th call() uses Acquire/Release
	Repeat    []int   // Repeat[k]: k-th call() invokes this many extra times (results discarded) before the real one — exercises re-use of one handle
	ObjFaults []ObjFault
	// DowngradePanics makes every panic kind behave as FGoErr with the same text
	// (the error-returning twin of a panicking world).
	DowngradePanics bool
}

// DrawWorldSpec draws a spec: up to maxFaults faults over op ids [0,nOps) and
// occurrences [0,maxOcc), with kinds from allowed.
func DrawWorldSpec(t *Tape, name string, nOps, maxOcc, maxFaults int, allowed []FaultKind, nChoose, nCalls int) *WorldSpec {
	ws := &WorldSpec{Name: name}
	nf := t.Draw(maxFaults + 1)
	for i := 0; i < nf; i++ {
		f := FaultAt{ID: t.Draw(nOps), Occ: t.Draw(maxOcc)}
		f.Kind = allowed[t.Draw(len(allowed))]
		ws.Faults = append(ws.Faults, f)
	}
	for i := 0; i < nChoose; i++ {
		row := make([]int, 6)
		for j := range row {
			row[j] = t.Draw(4)
		}
		ws.Choices = append(ws.Choices, row)
	}
	for i := 0; i < nCalls; i++ {
		ws.Pooled = append(ws.Pooled, t.Bool(1, 2))
		ws.Repeat = append(ws.Repeat, t.Pick(6, 1, 1))
	}
	return ws
}

// PanicStruct is the custom panic payload.
type PanicStruct struct{ Op, Occ int }

// World is one instantiation of a WorldSpec: the environment of one VM.
type World struct {
	Spec    *WorldSpec
	Hist    []string
	occ     map[int]int
	chooseN map[int]int
	calls   int
	RC      *RunCtx
	Globals ugo.Map
	// Fired lists the faults that actually fired, in order.
	Fired    []FaultAt
	FiredObj []ObjFault
	// OnCall, when set, is invoked at the start of every host call (used by
	// engines that want to act "inside a callback").
	OnCall func(name string, c ugo.Call)
	// NoFaults disables fault injection (fault-free control arm).
	NoFaults bool
	// AbortOnFault: op() calls Abort on the root VM of the calling VM immediately before it raises a fault (a host
	// that gives up on the script and then fails itself).
	AbortOnFault bool
	// CallErrs records what Invoke returned for each call().
	CallErrs []string
	argBufs  [][]ugo.Object
	argDepth int
}

// NewWorld instantiates a spec.
func NewWorld(spec *WorldSpec, rc *RunCtx) *World {
	w := &World{Spec: spec, occ: map[int]int{}, chooseN: map[int]int{}, RC: rc}
	w.Globals = ugo.Map{
		"log":      &ugo.Function{Name: "log", ValueEx: w.fnLog},
		"op":       &ugo.Function{Name: "op", ValueEx: w.fnOp},
		"choose":   &ugo.Function{Name: "choose", ValueEx: w.fnChoose},
		"call":     &ugo.Function{Name: "call", ValueEx: w.fnCall},
		"trace":    &ugo.Function{Name: "trace", ValueEx: w.fnTrace},
		"obj":      &ugo.Function{Name: "obj", ValueEx: w.fnObj},
		"callrep":  &ugo.Function{Name: "callrep", ValueEx: w.fnCallRep},
		"syncmap":  &ugo.Function{Name: "syncmap", ValueEx: w.fnSyncMap},
		"calleach": &ugo.Function{Name: "calleach", ValueEx: w.fnCallEach},
		"WID":      ugo.String(spec.Name),
	}
	return w
}

// Log appends an entry to the history.
func (w *World) Log(s string) { w.Hist = append(w.Hist, s) }

func (w *World) fnLog(c ugo.Call) (ugo.Object, error) {
	if w.OnCall != nil {
		w.OnCall("log", c)
	}
	var sb strings.Builder
	for i := 0; i < c.Len(); i++ {
		if i > 0 {
			sb.WriteByte(' ')
		}
		sb.WriteString(Canon(c.Get(i)))
	}
	w.Hist = append(w.Hist, sb.String())
	return ugo.Undefined, nil
}

// FaultFor looks up the fault of op(id) at occurrence occ.
func (w *World) FaultFor(id, occ int) FaultKind {
	if w.NoFaults {
		return FNone
	}
	for _, f := range w.Spec.Faults {
		if f.ID == id && f.Occ == occ {
			return f.Kind
		}
	}
	return FNone
}

// FaultText is the message carried by the fault of (id, occ).
func FaultText(id, occ int) string { return fmt.Sprintf("fault op=%d occ=%d", id, occ) }

func (w *World) fnOp(c ugo.Call) (ugo.Object, error) {
	if w.OnCall != nil {
		w.OnCall("op", c)
	}
	id := 0
	if c.Len() > 0 {
		if v, ok := c.Get(0).(ugo.Int); ok {
			id = int(v)
		}
	}
	occ := w.occ[id]
	w.occ[id] = occ + 1
	kind := w.FaultFor(id, occ)
	w.Hist = append(w.Hist, fmt.Sprintf("op(%d)#%d", id, occ))
	if kind == FNone {
		return ugo.Int(id*1000 + occ), nil
	}
	w.Fired = append(w.Fired, FaultAt{id, occ, kind})
	if w.AbortOnFault && c.VM() != nil {
		root := ugo.VerifRootOf(c.VM())
		if root == nil {
			root = c.VM()
		}
		root.Abort()
	}
	if err := w.raise(kind, id, occ, true); err != nil {
		return nil, err
	}
	return ugo.Undefined, nil
}

func (w *World) fnObj(c ugo.Call) (ugo.Object, error) {
	id := 0
	if c.Len() > 0 {
		if v, ok := c.Get(0).(ugo.Int); ok {
			id = int(v)
		}
	}
	return &HostObj{W: w, ID: id, occ: map[string]int{}}, nil
}

func (w *World) fnChoose(c ugo.Call) (ugo.Object, error) {
	if w.OnCall != nil {
		w.OnCall("choose", c)
	}
	id := 0
	if c.Len() > 0 {
		if v, ok := c.Get(0).(ugo.Int); ok {
			id = int(v)
		}
	}
	n := w.chooseN[id]
	w.chooseN[id] = n + 1
	v := 0
	if id >= 0 && id < len(w.Spec.Choices) && n < len(w.Spec.Choices[id]) {
		v = w.Spec.Choices[id][n]
	}
	w.Hist = append(w.Hist, fmt.Sprintf("choose(%d)#%d=%d", id, n, v))
	return ugo.Int(v), nil
}

// fnCall invokes a script function through an Invoker, the way Go code calls
// back into the script.
func (w *World) fnCall(c ugo.Call) (ugo.Object, error) {
	if w.OnCall != nil {
		w.OnCall("call", c)
	}
	if c.Len() < 1 {
		return nil, ugo.ErrWrongNumArguments.NewError("call wants a function")
	}
	k := w.calls
	w.calls++
	pooled, repeat := false, 0
	if k < len(w.Spec.Pooled) {
		pooled = w.Spec.Pooled[k]
		repeat = w.Spec.Repeat[k]
	}
	// like many hosts, the world re-uses one argument buffer for all its invocations (nested ones take the next
	// level): a callee must never see later calls' arguments through anything it kept from this call
	args := w.argBuffer()
	defer w.argRelease()
	for i := 1; i < c.Len(); i++ {
		args = append(args, c.Get(i))
	}
	inv := ugo.NewInvoker(c.VM(), c.Get(0))
	if pooled {
		inv.Acquire()
		defer inv.Release()
		if w.RC != nil {
			w.RC.Probe("call-pooled")
		}
	}
	_ = repeat
	ret, err := inv.Invoke(args...)
	if err != nil {
		w.CallErrs = append(w.CallErrs, CanonErr(err))
		return nil, err
	}
	w.CallErrs = append(w.CallErrs, "ok")
	return ret, nil
}

// fnCallEach invokes a one-parameter script function once per item on ONE Invoker handle and tolerates per-item
// errors (records "err" and goes on), like a host that processes a batch.
func (w *World) fnCallEach(c ugo.Call) (ugo.Object, error) {
	if c.Len() < 1 {
		return nil, ugo.ErrWrongNumArguments.NewError("calleach wants a function")
	}
	k := w.calls
	w.calls++
	pooled := false
	if k < len(w.Spec.Pooled) {
		pooled = w.Spec.Pooled[k]
	}
	inv := ugo.NewInvoker(c.VM(), c.Get(0))
	if pooled {
		inv.Acquire()
		defer inv.Release()
	}
	out := make(ugo.Array, 0, c.Len()-1)
	nerr := 0
	for i := 1; i < c.Len(); i++ {
		args := w.argBuffer()
		args = append(args, c.Get(i))
		r, err := inv.Invoke(args...)
		w.argRelease()
		if err != nil {
			if errors.Is(err, ugo.ErrVMAborted) {
				return nil, err
			}
			nerr++
			out = append(out, ugo.String("err"))
			continue
		}
		out = append(out, r)
	}
	if nerr > 0 {
		w.CallErrs = append(w.CallErrs, "item-errors")
	} else {
		w.CallErrs = append(w.CallErrs, "ok")
	}
	return out, nil
}

// argBuffer hands out the (re-used) argument buffer of the current nesting level.
func (w *World) argBuffer() []ugo.Object {
	if w.argDepth >= len(w.argBufs) {
		w.argBufs = append(w.argBufs, make([]ugo.Object, 0, 16))
	}
	b := w.argBufs[w.argDepth][:0]
	w.argDepth++
	return b
}

func (w *World) argRelease() {
	w.argDepth--
	// scribble over the buffer: what the callee received was only valid during the call
	b := w.argBufs[w.argDepth][:cap(w.argBufs[w.argDepth])]
	for i := range b {
		b[i] = ugo.String("stale-host-argument")
	}
}

// fnSyncMap returns a SyncMap holding a host object (its element callbacks run under the map's lock).
func (w *World) fnSyncMap(c ugo.Call) (ugo.Object, error) {
	id := 0
	if c.Len() > 0 {
		if v, ok := c.Get(0).(ugo.Int); ok {
			id = int(v)
		}
	}
	return &ugo.SyncMap{Value: ugo.Map{"o": &HostObj{W: w, ID: id, occ: map[string]int{}}}}, nil
}

// fnCallRep invokes a script function n times on one Invoker handle
// (Acquire once, Invoke n times, Release) and returns the last result; it
// stops at the first error, like the equivalent in-script loop.
func (w *World) fnCallRep(c ugo.Call) (ugo.Object, error) {
	if c.Len() < 2 {
		return nil, ugo.ErrWrongNumArguments.NewError("callrep wants a function and a count")
	}
	n, _ := c.Get(1).(ugo.Int)
	k := w.calls
	w.calls++
	pooled, reacquire := false, false
	if k < len(w.Spec.Pooled) {
		pooled = w.Spec.Pooled[k]
		// the same handle taken from and given back to the pool around every invocation
		reacquire = pooled && w.Spec.Repeat[k] > 0
	}
	args := w.argBuffer()
	defer w.argRelease()
	for i := 2; i < c.Len(); i++ {
		args = append(args, c.Get(i))
	}
	inv := ugo.NewInvoker(c.VM(), c.Get(0))
	if pooled && !reacquire {
		inv.Acquire()
		defer inv.Release()
	}
	var ret ugo.Object = ugo.Undefined
	for i := 0; i < int(n); i++ {
		if reacquire {
			inv.Acquire()
		}
		r, err := inv.Invoke(args...)
		if reacquire {
			inv.Release()
		}
		if err != nil {
			w.CallErrs = append(w.CallErrs, CanonErr(err))
			return nil, err
		}
		ret = r
	}
	w.CallErrs = append(w.CallErrs, "ok")
	return ret, nil
}

// fnTrace resolves the positions of an error without going through fmt (whose
// sync.Pool would add happens-before edges between simulated threads).
func (w *World) fnTrace(c ugo.Call) (ugo.Object, error) {
	if w.OnCall != nil {
		w.OnCall("trace", c)
	}
	if c.Len() < 1 {
		return ugo.String(""), nil
	}
	re, ok := c.Get(0).(*ugo.RuntimeError)
	if !ok {
		return ugo.String("not-runtime-error"), nil
	}
	var sb strings.Builder
	for _, p := range re.StackTrace() {
		sb.WriteString(p.Filename)
		sb.WriteByte(':')
		sb.WriteString(itoa(p.Line))
		sb.WriteByte(':')
		sb.WriteString(itoa(p.Column))
		sb.WriteByte(';')
	}
	return ugo.String(sb.String()), nil
}

func itoa(n int) string {
	if n == 0 {
		return "0"
	}
	neg := n < 0
	if neg {
		n = -n
	}
	var b [20]byte
	i := len(b)
	for n > 0 {
		i--
		b[i] = byte('0' + n%10)
		n /= 10
	}
	if neg {
		i--
		b[i] = '-'
	}
	return string(b[i:])
}

// Prelude is the declaration every generated main script starts with.
const Prelude = "global (log, op, choose, call, trace, WID)\n"

// PreludeObj additionally declares obj (host objects).
const PreludeObj = "global (log, op, choose, call, trace, WID, obj, syncmap)\n"

// PreludeCall additionally declares callrep.
const PreludeCall = "global (log, op, choose, call, trace, WID, callrep, calleach)\n"
