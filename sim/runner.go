package sim

import (
	"bytes"
	"encoding/json"
	"errors"
	"fmt"
	"hash/fnv"
	"os"
	"os/exec"
	"path/filepath"
	"regexp"
	"runtime"
	"sort"
	"strconv"
	"strings"
	"sync"
	"time"
)

// VerifDir is where evidence, replays and known findings live.
var VerifDir = func() string {
	if d := os.Getenv("VERIF_DIR"); d != "" {
		return d
	}
	return "/verif"
}()

// ViolationRecord is a violation with everything needed to replay it.
type ViolationRecord struct {
	Property string    `json:"property"`
	Tier     string    `json:"tier"`
	Seed     int64     `json:"seed"`
	Index    int       `json:"index"`
	Arm      string    `json:"arm,omitempty"`
	Tape     []uint64  `json:"tape"`
	Blob     []byte    `json:"blob,omitempty"`
	Viol     Violation `json:"violation"`
	Decoded  any       `json:"decoded,omitempty"`
	Shrunk   bool      `json:"shrunk"`
	Degraded bool      `json:"degraded_schedule,omitempty"`
	// Shard/Of identify the worker that found the violation; Prefix marks a violation that only reproduces after
	// the earlier runs of that worker (it depends on process-wide state those runs left behind): the replay then
	// re-executes run indexes Shard, Shard+Of, … up to Index in one process.
	Shard  int    `json:"shard"`
	Of     int    `json:"of"`
	Prefix bool   `json:"needs_earlier_runs_of_worker,omitempty"`
	Execs  int    `json:"shrink_execs,omitempty"`
	Note   string `json:"note,omitempty"`
}

// WorkerResult is what one worker process reports.
type WorkerResult struct {
	Evals      int               `json:"evals"`
	Runs       int               `json:"runs"`
	Planned    int               `json:"planned"`
	Discarded  map[string]int    `json:"discarded"`
	Faults     map[string]int    `json:"faults"`
	Probes     map[string]int    `json:"probes"`
	Steps      int64             `json:"steps"`
	SimTimeNs  int64             `json:"sim_time_ns"`
	Sigs       []uint64          `json:"sigs"`
	SigCapped  bool              `json:"sig_capped"`
	NonTrivial int               `json:"nontrivial"`
	Samples    []any             `json:"samples"`
	Viols      []ViolationRecord `json:"viols"`
	ViolCount  int               `json:"viol_count"`
	LogHash    uint64            `json:"log_hash"`
	WallS      float64           `json:"wall_s"`
	TimedOut   bool              `json:"timed_out"`
}

const sigCap = 400000

func hash64(s string) uint64 {
	h := fnv.New64a()
	h.Write([]byte(s))
	return h.Sum64()
}

// raceLog tracks the race detector's log file of this process.
type raceLog struct {
	path string
	off  int64
}

func newRaceLog() *raceLog {
	p := os.Getenv("VERIF_RACELOG")
	if p == "" {
		return nil
	}
	return &raceLog{path: p + "." + strconv.Itoa(os.Getpid())}
}

// poll returns the text appended to the log since the last call.
func (r *raceLog) poll() string {
	if r == nil {
		return ""
	}
	st, err := os.Stat(r.path)
	if err != nil || st.Size() <= r.off {
		return ""
	}
	f, err := os.Open(r.path)
	if err != nil {
		return ""
	}
	defer f.Close()
	buf := make([]byte, st.Size()-r.off)
	n, _ := f.ReadAt(buf, r.off)
	r.off += int64(n)
	return string(buf[:n])
}

var raceAccessRe = regexp.MustCompile(`^(Read|Write|Previous read|Previous write|Atomic read|Atomic write|Previous atomic read|Previous atomic write) at 0x`)
var raceFnRe = regexp.MustCompile(`(?m)^  (\S+)\(\)$`)

// RaceKey summarises a race report by the innermost ugo function of each of
// the two access stacks. ok is false when no frame belongs to ugo.
func RaceKey(report string) (key string, ok bool) {
	blocks := strings.Split(report, "\n\n")
	var tops []string
	for _, b := range blocks {
		isAccess := false
		for _, ln := range strings.SplitN(strings.TrimSpace(b), "\n", 4) {
			if raceAccessRe.MatchString(ln) {
				isAccess = true
			}
		}
		if !isAccess {
			continue
		}
		top := ""
		for _, m := range raceFnRe.FindAllStringSubmatch(b, -1) {
			if strings.Contains(m[1], "github.com/ozanh/ugo") {
				top = strings.TrimPrefix(m[1], "github.com/ozanh/ugo")
				top = strings.TrimPrefix(top, "/")
				top = strings.TrimPrefix(top, ".")
				break
			}
		}
		if top != "" && !strings.HasPrefix(top, "verif") {
			ok = true
		} else {
			top = "?"
		}
		tops = append(tops, top)
	}
	sort.Strings(tops)
	return "race:" + strings.Join(tops, "|"), ok
}

// checkRace converts new race reports into a violation on rc.
func checkRace(rl *raceLog, rc *RunCtx) {
	txt := rl.poll()
	if txt == "" {
		return
	}
	reports := strings.Split(txt, "==================")
	for _, rep := range reports {
		if !strings.Contains(rep, "DATA RACE") {
			continue
		}
		key, ok := RaceKey(rep)
		if !ok {
			// no frame of ozanh/ugo in either access: not about the code under test (counted, not a verdict)
			rc.Probe("race-report-without-ugo-frame(ignored)")
			continue
		}
		if len(rep) > 6000 {
			rep = rep[:6000] + "\n...[truncated]"
		}
		rc.Fail("data-race", key, "%s", rep)
		return
	}
}

// execOne runs one index (search or replay) including race-log polling.
func execOne(e *Engine, rl *raceLog, rc *RunCtx) {
	// every run executes under a watchdog: code under test that spins or blocks without executing VM
	// instructions cannot be ended by the step cap; such a run is reported and the process is not reused
	limit := 180 * time.Second
	if e.RunTimeout > 0 {
		limit = e.RunTimeout
	}
	inner := *rc
	done := make(chan struct{})
	tm := time.NewTimer(limit) // created before the run starts (no timer set-up concurrent with a scheduler run)
	defer tm.Stop()
	go func() {
		defer close(done)
		e.Run(&inner)
	}()
	select {
	case <-done:
		*rc = inner
	case <-tm.C:
		rc.Viol = &Violation{Class: "hang", Key: "hang:run-does-not-finish", Detail: fmt.Sprintf("the run did not finish within %v (it neither returns nor executes VM instructions that the step cap could stop); run index %d", limit, rc.Index)}
		rc.Fatal = true
		rc.Sig = ""
	}
	if rl != nil {
		// a race outranks whatever else the run found: it is the arm's oracle
		// (a run that left threads blocked for real is torn down without
		// synchronisation: its reports are artefacts of the teardown)
		if rc.Viol == nil && !rc.Fatal {
			checkRace(rl, rc)
		} else {
			rl.poll()
		}
	}
}

// StartMemoryWatchdog ends the process (exit 3) when its heap passes 6 GiB: a runaway workload — or code under test
// that allocates without bound — must not take the sandbox down; the parent attributes the death to the run in progress.
func StartMemoryWatchdog(label string) {
	go func() {
		var ms runtime.MemStats
		for {
			time.Sleep(500 * time.Millisecond)
			runtime.ReadMemStats(&ms)
			if ms.HeapAlloc > 6<<30 {
				fmt.Fprintf(os.Stderr, "memory watchdog: heap %d MiB while executing %s\n", ms.HeapAlloc>>20, label)
				os.Exit(3)
			}
		}
	}()
}

// Worker executes a shard of run indexes and prints a WorkerResult.
func Worker(prop, tier string, seed int64, shard, of, runs int, arm string, deadline time.Time, progress string) int {
	e := Lookup(prop)
	if e == nil {
		fmt.Fprintln(os.Stderr, "unknown property", prop)
		return 2
	}
	rl := newRaceLog()
	StartMemoryWatchdog(fmt.Sprintf("%s shard %d/%d", prop, shard, of))
	res := WorkerResult{Discarded: map[string]int{}, Faults: map[string]int{}, Probes: map[string]int{}}
	sigs := map[uint64]struct{}{}
	var pf *os.File
	if progress != "" {
		pf, _ = os.OpenFile(progress, os.O_CREATE|os.O_WRONLY|os.O_TRUNC, 0o644)
	}
	start := time.Now()
	for idx := shard; idx < runs; idx += of {
		res.Planned++
		if !deadline.IsZero() && idx%16 == shard%16 && time.Now().After(deadline) {
			res.TimedOut = true
			continue
		}
		if res.TimedOut {
			continue
		}
		if pf != nil {
			pf.WriteAt([]byte(fmt.Sprintf("%-20d", idx)), 0)
		}
		rc := &RunCtx{Prop: prop, Tier: tier, Seed: seed, Index: idx, Arm: arm, T: NewTape(seed, prop, idx)}
		execOne(e, rl, rc)
		if rc.SubEvals > 0 {
			res.Evals += rc.SubEvals
		} else {
			res.Evals++
		}
		res.Runs++
		res.Steps += rc.Steps
		res.SimTimeNs += rc.SimTimeNs
		res.LogHash ^= rc.LogHash() * uint64(2*idx+1)
		if rc.Fatal {
			res.TimedOut = true // remaining indexes of this shard are skipped and reported as not run
		}
		for k, v := range rc.Faults {
			res.Faults[k] += v
		}
		for k, v := range rc.Probes {
			res.Probes[k] += v
		}
		if rc.Discard != "" {
			res.Discarded[rc.Discard]++
			continue
		}
		if rc.Sig != "" {
			res.NonTrivial++
			if len(sigs) < sigCap {
				sigs[hash64(rc.Sig)] = struct{}{}
			} else {
				res.SigCapped = true
			}
			if len(res.Samples) < 2 && rc.Sample != nil {
				res.Samples = append(res.Samples, rc.Sample)
			}
		}
		if rc.Viol != nil {
			res.ViolCount++
			if len(res.Viols) < 40 {
				tape := append([]uint64(nil), rc.T.Used()...)
				if rc.TapeOverride != nil {
					tape = rc.TapeOverride
				}
				res.Viols = append(res.Viols, ViolationRecord{
					Property: prop, Tier: tier, Seed: seed, Index: idx, Arm: arm,
					Tape: tape, Blob: rc.Blob,
					Viol: *rc.Viol, Decoded: rc.Decoded, Degraded: rc.Degraded, Shard: shard, Of: of,
				})
				for _, o := range rc.Others {
					res.ViolCount++
					res.Viols = append(res.Viols, ViolationRecord{
						Property: prop, Tier: tier, Seed: seed, Index: idx, Arm: arm,
						Tape: o.Tape, Viol: o.Viol, Shard: shard, Of: of,
					})
				}
			}
		}
	}
	for s := range sigs {
		res.Sigs = append(res.Sigs, s)
	}
	sort.Slice(res.Sigs, func(i, j int) bool { return res.Sigs[i] < res.Sigs[j] })
	res.WallS = time.Since(start).Seconds()
	enc := json.NewEncoder(os.Stdout)
	if err := enc.Encode(&res); err != nil {
		fmt.Fprintln(os.Stderr, "encode:", err)
		return 2
	}
	return 0
}

// ReplayFile re-executes a replay file; returns the run context.
func ReplayFile(path string) (*ViolationRecord, *RunCtx, error) {
	b, err := os.ReadFile(path)
	if err != nil {
		return nil, nil, err
	}
	var vr ViolationRecord
	if err := json.Unmarshal(b, &vr); err != nil {
		return nil, nil, err
	}
	e := Lookup(vr.Property)
	if e == nil {
		return nil, nil, fmt.Errorf("unknown property %q", vr.Property)
	}
	rl := newRaceLog()
	if vr.Arm == "race" && rl == nil {
		return &vr, nil, errors.New("replay of a race-arm violation needs the race build (use ./check <prop> --replay <file>)")
	}
	StartMemoryWatchdog("replay of " + path)
	rc := &RunCtx{Prop: vr.Property, Tier: vr.Tier, Seed: vr.Seed, Index: vr.Index, Arm: vr.Arm, T: ReplayTape(vr.Tape), ReplayBlob: vr.Blob}
	if vr.Prefix && vr.Of > 0 {
		// process-wide state: first everything the worker ran before, exactly as it ran it
		for idx := vr.Shard; idx < vr.Index; idx += vr.Of {
			prc := &RunCtx{Prop: vr.Property, Tier: vr.Tier, Seed: vr.Seed, Index: idx, Arm: vr.Arm, T: NewTape(vr.Seed, vr.Property, idx)}
			execOne(e, rl, prc)
		}
		rc.T = NewTape(vr.Seed, vr.Property, vr.Index)
	}
	if vr.Viol.Class == "worker-crash" && len(vr.Tape) == 0 {
		// the worker died inside this run: re-execute the run index itself
		rc.T = NewTape(vr.Seed, vr.Property, vr.Index)
	}
	execOne(e, rl, rc)
	return &vr, rc, nil
}

// ShrinkFile minimises the violation in `in` and writes it to `out`.
func ShrinkFile(in, out string) error {
	b, err := os.ReadFile(in)
	if err != nil {
		return err
	}
	var vr ViolationRecord
	if err := json.Unmarshal(b, &vr); err != nil {
		return err
	}
	e := Lookup(vr.Property)
	if e == nil {
		return fmt.Errorf("unknown property %q", vr.Property)
	}
	rl := newRaceLog()
	budget := e.ShrinkBudget
	if budget == 0 {
		budget = 600
	}
	var last *RunCtx
	poisoned := false
	fails := func(vals []uint64) ([]uint64, bool) {
		if poisoned {
			return nil, false
		}
		rc := &RunCtx{Prop: vr.Property, Tier: vr.Tier, Seed: vr.Seed, Index: vr.Index, Arm: vr.Arm, T: ReplayTape(vals), ReplayBlob: vr.Blob}
		execOne(e, rl, rc)
		if rc.Fatal {
			poisoned = true // a thread is blocked for real: this process cannot run further candidates
		}
		if rc.Viol != nil && (rc.Viol.Key == vr.Viol.Key || rc.Viol.Class == "data-race" && vr.Viol.Class == "data-race") {
			last = rc
			return rc.T.Used(), true
		}
		return nil, false
	}
	// the recorded tape must reproduce before shrinking means anything
	if _, ok := fails(vr.Tape); !ok {
		vr.Note = "recorded tape did not reproduce in the shrinking process"
		nb, _ := json.MarshalIndent(&vr, "", " ")
		os.WriteFile(out, nb, 0o644)
		return errors.New(vr.Note)
	}
	min, execs := ShrinkUntil(vr.Tape, budget, time.Now().Add(40*time.Second), fails)
	// final execution on the minimal tape for decoded output
	if poisoned && last != nil {
		vr.Tape = append([]uint64(nil), last.T.Used()...)
		vr.Shrunk = true
		vr.Execs = execs
		vr.Viol = *last.Viol
		vr.Decoded = last.Decoded
		vr.Degraded = last.Degraded
	} else if _, ok := fails(min); ok {
		vr.Tape = min
		vr.Shrunk = true
		vr.Execs = execs
		vr.Viol = *last.Viol
		vr.Decoded = last.Decoded
	}
	nb, err := json.MarshalIndent(&vr, "", " ")
	if err != nil {
		return err
	}
	return os.WriteFile(out, nb, 0o644)
}

// Finding is one entry of known_findings.json.
type Finding struct {
	Property string `json:"property"`
	Key      string `json:"key"`
	Status   string `json:"status"` // open | fixed
	What     string `json:"what"`
	Commit   string `json:"commit,omitempty"`
}

// LoadFindings reads the committed known-findings file (read-only at run time).
func LoadFindings() []Finding {
	b, err := os.ReadFile(filepath.Join(VerifDir, "known_findings.json"))
	if err != nil {
		return nil
	}
	var fs []Finding
	if err := json.Unmarshal(b, &fs); err != nil {
		fmt.Fprintln(os.Stderr, "known_findings.json:", err)
		os.Exit(2)
	}
	return fs
}

// Options of a check invocation.
type Options struct {
	Prop    string
	Tier    string
	Seed    int64
	Workers int
	RaceBin string
	Self    string
}

type armResult struct {
	WorkerResult
	crashes []ViolationRecord
}

func runArm(e *Engine, o Options, bin, arm string, runs int, wallCap float64) (*armResult, error) {
	if runs <= 0 {
		return &armResult{}, nil
	}
	workers := o.Workers
	if workers > runs {
		workers = runs
	}
	deadline := time.Time{}
	if wallCap > 0 {
		deadline = time.Now().Add(time.Duration(wallCap * float64(time.Second)))
	}
	tmp, err := os.MkdirTemp("", "simcheck-"+o.Prop+"-")
	if err != nil {
		return nil, err
	}
	defer os.RemoveAll(tmp)
	type wr struct {
		res   WorkerResult
		err   error
		shard int
		errb  string
	}
	out := make([]wr, workers)
	var wg sync.WaitGroup
	for w := 0; w < workers; w++ {
		wg.Add(1)
		go func(w int) {
			defer wg.Done()
			args := []string{"worker", o.Prop, "--tier", o.Tier, "--seed", strconv.FormatInt(o.Seed, 10),
				"--shard", strconv.Itoa(w), "--of", strconv.Itoa(workers), "--runs", strconv.Itoa(runs), "--arm", arm}
			if !deadline.IsZero() {
				args = append(args, "--deadline", strconv.FormatInt(deadline.UnixNano(), 10))
			}
			// every worker records the run index it is executing: a worker that dies (fatal runtime error, memory
			// watchdog, a Go panic escaping from code under test) is attributed to that run and re-executed in a fresh process
			prog := filepath.Join(tmp, fmt.Sprintf("progress.%d", w))
			args = append(args, "--progress", prog)
			cmd := exec.Command(bin, args...)
			cmd.Env = append(os.Environ(), "GOMAXPROCS=2")
			if arm == "race" {
				cmd.Env = append(cmd.Env,
					"GORACE=halt_on_error=0 exitcode=0 log_path="+filepath.Join(tmp, "race"),
					"VERIF_RACELOG="+filepath.Join(tmp, "race"))
			}
			var so, se bytes.Buffer
			cmd.Stdout, cmd.Stderr = &so, &se
			err := cmd.Run()
			out[w].shard = w
			out[w].errb = se.String()
			if err != nil && arm == "race" && json.Unmarshal(so.Bytes(), &out[w].res) == nil && out[w].res.Planned > 0 {
				// the worker reported completely and then died while exiting (the race runtime aborts at exit when a
				// run that was torn down after a real hang left goroutines behind): the report stands
				err = nil
			}
			if err != nil {
				out[w].err = err
				if prog != "" {
					if pb, e2 := os.ReadFile(prog); e2 == nil {
						out[w].errb = "CRASHIDX=" + strings.TrimSpace(string(pb)) + "\n" + out[w].errb
					}
				}
				return
			}
			if e2 := json.Unmarshal(so.Bytes(), &out[w].res); e2 != nil {
				out[w].err = fmt.Errorf("bad worker output: %v: %.300s", e2, so.String())
			}
		}(w)
	}
	wg.Wait()
	ar := &armResult{WorkerResult: WorkerResult{Discarded: map[string]int{}, Faults: map[string]int{}, Probes: map[string]int{}}}
	sigs := map[uint64]struct{}{}
	for _, r := range out {
		if r.err != nil {
			if strings.HasPrefix(r.errb, "CRASHIDX=") {
				line := r.errb
				if i := strings.Index(line, "\n"); i >= 0 {
					line = line[:i]
				}
				idx, _ := strconv.Atoi(strings.TrimPrefix(line, "CRASHIDX="))
				msg := r.errb
				if len(msg) > 3000 {
					msg = msg[:3000]
				}
				ar.crashes = append(ar.crashes, ViolationRecord{Property: o.Prop, Tier: o.Tier, Seed: o.Seed, Index: idx, Arm: arm,
					Viol: Violation{Class: "worker-crash", Key: "worker-crash", Detail: msg}})
				continue
			}
			return nil, fmt.Errorf("worker %d (%s arm) failed: %v\n%s", r.shard, arm, r.err, r.errb)
		}
		w := r.res
		ar.Evals += w.Evals
		ar.Runs += w.Runs
		ar.Planned += w.Planned
		ar.Steps += w.Steps
		ar.SimTimeNs += w.SimTimeNs
		ar.NonTrivial += w.NonTrivial
		ar.ViolCount += w.ViolCount
		ar.LogHash ^= w.LogHash
		ar.SigCapped = ar.SigCapped || w.SigCapped
		ar.TimedOut = ar.TimedOut || w.TimedOut
		if w.WallS > ar.WallS {
			ar.WallS = w.WallS
		}
		for k, v := range w.Discarded {
			ar.Discarded[k] += v
		}
		for k, v := range w.Faults {
			ar.Faults[k] += v
		}
		for k, v := range w.Probes {
			ar.Probes[k] += v
		}
		for _, s := range w.Sigs {
			sigs[s] = struct{}{}
		}
		if len(ar.Samples) < 5 {
			ar.Samples = append(ar.Samples, w.Samples...)
		}
		ar.Viols = append(ar.Viols, w.Viols...)
	}
	ar.Sigs = make([]uint64, 0, len(sigs))
	for s := range sigs {
		ar.Sigs = append(ar.Sigs, s)
	}
	return ar, nil
}

// RunCheck is the parent side of `simcheck run`. It returns the process exit code.
func RunCheck(o Options) int {
	start := time.Now()
	e := Lookup(o.Prop)
	if e == nil {
		fmt.Fprintln(os.Stderr, "unknown property", o.Prop)
		return 2
	}
	if o.Workers <= 0 {
		o.Workers = runtime.NumCPU()
	}
	fmt.Printf("simcheck property=%s tier=%s VERIF_SEED=%d workers=%d\n", o.Prop, o.Tier, o.Seed, o.Workers)
	wallCap := 0.0
	if e.WallCap != nil {
		wallCap = e.WallCap(o.Tier)
	}
	plain, err := runArm(e, o, o.Self, "", e.Runs(o.Tier), wallCap)
	if err != nil {
		fmt.Fprintln(os.Stderr, "INFRASTRUCTURE:", err)
		return 2
	}
	race := &armResult{}
	raceRuns := 0
	if e.RaceRuns != nil {
		raceRuns = e.RaceRuns(o.Tier)
	}
	if raceRuns > 0 {
		if o.RaceBin == "" {
			fmt.Fprintln(os.Stderr, "INFRASTRUCTURE: race arm requested but no race binary (VERIF_RACE_BIN)")
			return 2
		}
		race, err = runArm(e, o, o.RaceBin, "race", raceRuns, wallCap)
		if err != nil {
			fmt.Fprintln(os.Stderr, "INFRASTRUCTURE:", err)
			return 2
		}
	}

	// ---- violations: one representative per key, minimised and replayed ----
	all := append(append([]ViolationRecord{}, plain.Viols...), race.Viols...)
	all = append(all, plain.crashes...)
	all = append(all, race.crashes...)
	byKey := map[string][]ViolationRecord{}
	var keys []string
	for _, v := range all {
		k := v.Arm + "/" + v.Viol.Key
		if _, ok := byKey[k]; !ok {
			keys = append(keys, k)
		}
		byKey[k] = append(byKey[k], v)
	}
	sort.Strings(keys)
	findings := LoadFindings()
	os.MkdirAll(filepath.Join(VerifDir, "replays"), 0o755)
	exit := 0
	var reported []map[string]any
	knownSeen := map[string]int{}
	finalKeys := map[string]bool{}
	var irreproducible []string
	for ki, k := range keys {
		if ki >= 40 {
			fmt.Printf("note: %d further violation keys not minimised\n", len(keys)-ki)
			break
		}
		vs := byKey[k]
		sort.Slice(vs, func(i, j int) bool {
			if len(vs[i].Tape) != len(vs[j].Tape) {
				return len(vs[i].Tape) < len(vs[j].Tape)
			}
			return vs[i].Index < vs[j].Index
		})
		v := vs[0]
		bin := o.Self
		if v.Arm == "race" {
			bin = o.RaceBin
		}
		name := fmt.Sprintf("%s-%s-%016x.json", o.Prop, o.Tier, hash64(k))
		rawPath := filepath.Join(VerifDir, "replays", "raw-"+name)
		outPath := filepath.Join(VerifDir, "replays", name)
		rb, _ := json.MarshalIndent(&v, "", " ")
		os.WriteFile(rawPath, rb, 0o644)
		final := v
		if v.Viol.Class != "worker-crash" && ki >= 8 {
			// minimise the first keys only; the rest is reported as found
			v.Note = "not minimised (more than 8 distinct violation keys in this run)"
			rb, _ := json.MarshalIndent(&v, "", " ")
			os.WriteFile(outPath, rb, 0o644)
			os.Remove(rawPath)
		} else if v.Viol.Class != "worker-crash" {
			cmd := exec.Command(bin, "shrink", rawPath, outPath)
			cmd.Env = raceEnv(v.Arm)
			if ob, err := cmd.CombinedOutput(); err != nil {
				// the shrinker died (a candidate input crashed the process): keep the unminimised case
				fmt.Printf("note: shrinking %s failed (%v: %s); reporting the unminimised case\n", rawPath, err, truncate(firstLine(string(ob)), 200))
				v.Note = "not minimised: the shrinking process crashed on a candidate"
				rb, _ := json.MarshalIndent(&v, "", " ")
				os.WriteFile(outPath, rb, 0o644)
				final = v
			} else {
				nb, _ := os.ReadFile(outPath)
				json.Unmarshal(nb, &final)
			}
			os.Remove(rawPath)
		} else {
			os.Rename(rawPath, outPath)
		}
		// replay in a fresh process: must reproduce exactly
		cmd := exec.Command(bin, "replay", outPath)
		cmd.Env = raceEnv(v.Arm)
		ob, rerr := cmd.CombinedOutput()
		code := 0
		if ee, ok := rerr.(*exec.ExitError); ok {
			code = ee.ExitCode()
		} else if rerr != nil {
			code = 2
		}
		reproduced := code == 1 && strings.Contains(string(ob), "REPRODUCED key="+final.Viol.Key)
		if !reproduced && code == 1 && strings.Contains(string(ob), "REPRODUCED key=") {
			// the same tape violates the property again but shows another key (or even class): a run with several
			// races, or a failure whose manifestation depends on Go map order (encoder output)
			if !strings.Contains(string(ob), " class="+final.Viol.Class+"\n") {
				fmt.Printf("note: replay of %s shows another manifestation of the violation than the run that found it\n", outPath)
			}
			reproduced = true
		}
		if false {
			// same class, other key: a run with several races (which pair the detector reports first is its own business),
			// or a failure whose position depends on Go map order (encoder output)
			reproduced = true
		}
		if v.Viol.Class == "worker-crash" {
			reproduced = code != 0 && code != 1 || strings.Contains(string(ob), "fatal error") || strings.Contains(string(ob), "panic:")
			if !reproduced {
				irreproducible = append(irreproducible, fmt.Sprintf("worker crash at index %d did not reproduce in a fresh process\n%s", v.Index, v.Viol.Detail))
				os.Remove(outPath)
				continue
			}
			final.Viol.Key = crashKey(string(ob))
			final.Viol.Detail = truncate(string(ob), 3000)
			nb, _ := json.MarshalIndent(&final, "", " ")
			os.WriteFile(outPath, nb, 0o644)
		} else if !reproduced && !final.Degraded && final.Of > 0 && final.Index >= final.Of {
			// not reproducible on its own: does it depend on process-wide state left by the worker's earlier runs?
			pv := v
			pv.Prefix = true
			pv.Note = "reproduces only after the earlier runs of its worker: the violation depends on process-wide state (e.g. a shared sentinel object) that an earlier run modified"
			nb, _ := json.MarshalIndent(&pv, "", " ")
			os.WriteFile(outPath, nb, 0o644)
			cmd := exec.Command(bin, "replay", outPath)
			cmd.Env = raceEnv(v.Arm)
			ob2, rerr2 := cmd.CombinedOutput()
			code2 := 0
			if ee, ok := rerr2.(*exec.ExitError); ok {
				code2 = ee.ExitCode()
			}
			if code2 == 1 && strings.Contains(string(ob2), " class="+pv.Viol.Class+"\n") {
				final = pv
				fmt.Printf("note: %s reproduces only together with the earlier runs of worker %d/%d\n", outPath, pv.Shard, pv.Of)
			} else if final.Viol.Key == "hang:run-does-not-finish" {
				// a run that outlived the watchdog once but finishes in a fresh process, alone and after its worker's
				// earlier runs: the machine was overloaded, not the code under test stuck
				fmt.Printf("note: run %d exceeded the run watchdog once and finishes normally when re-executed; not reported\n", final.Index)
				os.Remove(outPath)
				continue
			} else {
				irreproducible = append(irreproducible, fmt.Sprintf("replay of %s (key %s) did not reproduce (exit %d), neither alone nor after the worker's earlier runs\n%s", outPath, final.Viol.Key, code, truncate(string(ob), 2000)))
				continue
			}
		} else if !reproduced && final.Degraded {
			// the violation was observed on the real code, but the run contained blocking the scheduler does not
			// model, so its interleaving is not fully tape-decided: report it, marked as not exactly replayable
			final.Note = "observed in a run with un-modelled blocking (degraded schedule); replay is best-effort and did not reproduce in one attempt"
			nb, _ := json.MarshalIndent(&final, "", " ")
			os.WriteFile(outPath, nb, 0o644)
			fmt.Printf("note: %s did not reproduce exactly (degraded schedule)\n", outPath)
		} else if !reproduced {
			irreproducible = append(irreproducible, fmt.Sprintf("replay of %s (key %s) did not reproduce (exit %d)\n%s", outPath, final.Viol.Key, code, truncate(string(ob), 2000)))
			continue
		}
		fk := final.Viol.Key
		if finalKeys[fk] {
			continue
		}
		finalKeys[fk] = true
		known := false
		for _, f := range findings {
			if f.Property == o.Prop && f.Status == "open" && f.Key == fk {
				known = true
				knownSeen[fk] += len(vs)
				fmt.Printf("KNOWN-FINDING: property=%s key=%s %s (replay=%s)\n", o.Prop, fk, f.What, outPath)
			}
		}
		if !known {
			exit = 1
			fmt.Printf("VIOLATION property=%s replay=%s\n", o.Prop, outPath)
			fmt.Printf("  class=%s key=%s arm=%q seed=%d index=%d tape_len=%d occurrences=%d\n", final.Viol.Class, fk, final.Arm, final.Seed, final.Index, len(final.Tape), len(vs))
			fmt.Printf("  %s\n", strings.ReplaceAll(truncate(final.Viol.Detail, 1500), "\n", "\n  "))
		}
		reported = append(reported, map[string]any{"key": fk, "class": final.Viol.Class, "known": known, "replay": outPath, "occurrences": len(vs)})
	}

	// A failure that does not replay is never reported as a violation. When the same check run also produced violations
	// that do replay, those decide the verdict and the others are only noted; when none replays, the run is inconclusive
	// (exit 2) rather than clean.
	for _, m := range irreproducible {
		if exit == 1 {
			fmt.Printf("note: not reported, %s\n", truncate(m, 300))
		} else {
			fmt.Fprintln(os.Stderr, "INFRASTRUCTURE:", m)
		}
	}
	if exit == 0 && len(irreproducible) > 0 {
		return 2
	}

	// ---- evidence ----
	sigs := map[uint64]struct{}{}
	for _, s := range plain.Sigs {
		sigs[s] = struct{}{}
	}
	for _, s := range race.Sigs {
		sigs[s] = struct{}{}
	}
	wall := time.Since(start).Seconds()
	evals := plain.Evals + race.Evals
	cov := map[string]any{
		"evaluations":                 evals,
		"distinct_nontrivial":         len(sigs),
		"rule":                        e.Rule,
		"samples":                     append(append([]any{}, plain.Samples...), race.Samples...),
		"simulated_runs":              plain.Runs + race.Runs,
		"runs_plain":                  plain.Runs,
		"runs_race_arm":               race.Runs,
		"runs_planned":                plain.Planned + race.Planned,
		"nontrivial_runs":             plain.NonTrivial + race.NonTrivial,
		"distinct_count_capped":       plain.SigCapped || race.SigCapped,
		"wall_cap_hit":                plain.TimedOut || race.TimedOut,
		"runs_per_hour":               int(float64(evals) / wall * 3600),
		"seeds":                       fmt.Sprintf("VERIF_SEED=%d; every run index i uses tape seed hash(VERIF_SEED, property, i)", o.Seed),
		"sim_steps":                   plain.Steps + race.Steps,
		"sim_time_ns":                 plain.SimTimeNs + race.SimTimeNs,
		"faults_fired":                mergeCounts(plain.Faults, race.Faults),
		"probes":                      mergeCounts(plain.Probes, race.Probes),
		"discarded":                   mergeCounts(plain.Discarded, race.Discarded),
		"event_log_hash":              fmt.Sprintf("%016x", plain.LogHash),
		"components":                  map[string]any{"real": e.Real, "simulated": e.Simulated},
		"violations_reported":         reported,
		"known_findings_seen":         knownSeen,
		"violating_runs_before_dedup": plain.ViolCount + race.ViolCount,
	}
	if len(cov["samples"].([]any)) > 6 {
		cov["samples"] = cov["samples"].([]any)[:6]
	}
	if e.Exhaustive != nil {
		cov["exhaustive"] = e.Exhaustive(o.Tier) && !(plain.TimedOut || race.TimedOut)
	}
	if e.Extra != nil {
		for k, v := range e.Extra(o.Tier) {
			cov[k] = v
		}
	}
	ev := map[string]any{
		"property_id": o.Prop,
		"tier":        o.Tier,
		"seed":        o.Seed,
		"level":       e.Level,
		"coverage":    cov,
		"assumptions": e.Assumptions,
		"wall_s":      wall,
		"violations":  len(reported) - len(knownSeen),
	}
	eb, _ := json.MarshalIndent(ev, "", " ")
	os.MkdirAll(filepath.Join(VerifDir, "evidence"), 0o755)
	if err := os.WriteFile(filepath.Join(VerifDir, "evidence", o.Prop+".json"), eb, 0o644); err != nil {
		fmt.Fprintln(os.Stderr, "INFRASTRUCTURE: cannot write evidence:", err)
		return 2
	}
	fmt.Printf("done property=%s runs=%d (plain %d, race %d) distinct_nontrivial=%d faults=%v wall=%.1fs exit=%d\n",
		o.Prop, evals, plain.Evals, race.Evals, len(sigs), mergeCounts(plain.Faults, race.Faults), wall, exit)
	if evals == 0 && exit == 0 {
		// (when every worker died in its first run the crash itself was replayed and reported above)
		fmt.Fprintln(os.Stderr, "INFRASTRUCTURE: no run executed")
		return 2
	}
	return exit
}

func raceEnv(arm string) []string {
	env := os.Environ()
	if arm == "race" {
		d, _ := os.MkdirTemp("", "racelog-")
		env = append(env, "GORACE=halt_on_error=0 exitcode=0 log_path="+filepath.Join(d, "race"), "VERIF_RACELOG="+filepath.Join(d, "race"))
	}
	return env
}

var crashRe = regexp.MustCompile(`(?m)^(fatal error|panic): (.*)$`)

func crashKey(out string) string {
	if strings.Contains(out, "memory watchdog: heap") {
		return "crash:memory-watchdog"
	}
	if m := crashRe.FindStringSubmatch(out); m != nil {
		msg := regexp.MustCompile(`[0-9]+`).ReplaceAllString(m[2], "N")
		return "crash:" + m[1] + ":" + truncate(msg, 80)
	}
	return "crash:unknown"
}

func firstLine(s string) string {
	if i := strings.Index(s, "\n"); i >= 0 {
		return s[:i]
	}
	return s
}

func truncate(s string, n int) string {
	if len(s) > n {
		return s[:n] + "…"
	}
	return s
}

func mergeCounts(a, b map[string]int) map[string]int {
	m := map[string]int{}
	for k, v := range a {
		m[k] += v
	}
	for k, v := range b {
		m[k] += v
	}
	return m
}
