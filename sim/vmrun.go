package sim

import (
	"runtime/metrics"
	"time"
	"unsafe"

	"github.com/ozanh/ugo"
)

// StepCounter is the synchronous use of the per-instruction hook: it counts
// executed instructions, can abort the VM at a chosen instruction ("crash at
// an arbitrary instruction"), and enforces a step cap so that a looping
// program ends with VMAbortedError instead of hanging the worker.
type StepCounter struct {
	Steps   int64
	Cap     int64
	AbortAt int64 // 0 = never; otherwise Abort() is called when Steps reaches it
	Capped  bool
	Fired   bool
	// OnStep, when set, is called for every loop point (after counting).
	OnStep    func(vm *ugo.VM, step int64)
	inHook    bool
	allocBase uint64
	prevSteps int64
}

// AllocTrips counts how often an allocation guard ended a workload in this process.
var AllocTrips int

var allocMetric = []metrics.Sample{{Name: "/gc/heap/allocs:bytes"}}

func heapAllocBytes() uint64 {
	metrics.Read(allocMetric)
	return allocMetric[0].Value.Uint64()
}

// Install makes sc the process-wide hook until the returned function is called.
func (sc *StepCounter) Install() (restore func()) {
	prev := ugo.VerifHook
	ugo.VerifHook = func(p int, obj unsafe.Pointer) {
		if p != ugo.VerifLoop || sc.inHook {
			return
		}
		sc.Steps++
		if sc.Steps <= sc.prevSteps {
			sc.allocBase = 0 // the engine reset the counter: a new run, a new allowance
		}
		sc.prevSteps = sc.Steps
		vm := (*ugo.VM)(obj)
		if sc.Steps&31 == 0 && sc.Cap > 0 {
			// allocation guard: a generated workload that doubles a string or array in a loop is ended like one
			// that runs too long (the run is discarded by the engine), before it takes the worker down
			a := heapAllocBytes()
			if sc.allocBase == 0 {
				sc.allocBase = a
			} else if a-sc.allocBase > 1<<30 {
				sc.Steps = sc.Cap + 1
				AllocTrips++
			}
		}
		if sc.AbortAt > 0 && sc.Steps == sc.AbortAt {
			sc.Fired = true
			sc.inHook = true
			root := ugo.VerifRootOf(vm)
			if root == nil {
				root = vm
			}
			root.Abort()
			sc.inHook = false
		}
		if sc.Cap > 0 && sc.Steps > sc.Cap {
			sc.Capped = true
			sc.inHook = true
			vm.Abort()
			if root := ugo.VerifRootOf(vm); root != nil && root != vm {
				root.Abort()
			}
			sc.inHook = false
		}
		if sc.OnStep != nil {
			sc.inHook = true
			sc.OnStep(vm, sc.Steps)
			sc.inHook = false
		}
	}
	return func() { ugo.VerifHook = prev }
}

// RunCapped runs vm under a step cap and returns the outcome pieces.
func RunCapped(vm *ugo.VM, globals ugo.Object, cap int64, args ...ugo.Object) (ret ugo.Object, err error, steps int64, capped bool) {
	sc := &StepCounter{Cap: cap}
	restore := sc.Install()
	defer restore()
	ret, err = vm.Run(globals, args...)
	return ret, err, sc.Steps, sc.Capped
}

// Watchdog runs fn on its own goroutine and reports whether it finished within
// d. A run that does not finish is blocked for real (no instruction executes,
// so the step cap cannot end it); the process must not be reused afterwards.
func Watchdog(d time.Duration, fn func()) (finished bool) {
	done := make(chan struct{})
	go func() {
		defer close(done)
		fn()
	}()
	select {
	case <-done:
		return true
	case <-time.After(d):
		return false
	}
}
