//go:build !race

package sim

import "unsafe"

// RaceBuild reports whether the race detector is compiled in.
const RaceBuild = false

func raceDisable() {}
func raceEnable()  {}

func raceReleaseMerge(unsafe.Pointer) {}
func raceAcquire(unsafe.Pointer)      {}
