package sim

import (
	"fmt"
	"hash/fnv"
	"sort"
	"time"
)

// Violation is one observed breach of a property.
type Violation struct {
	Class  string `json:"class"`  // coarse kind, e.g. "lost-abort"
	Key    string `json:"key"`    // specific identity used for known-finding matching and shrinking
	Detail string `json:"detail"` // human-readable
}

// RunCtx carries the inputs and outputs of one simulated run.
type RunCtx struct {
	Prop  string
	Tier  string
	Seed  int64
	Index int
	Arm   string // "" plain, "race" when executing inside the race-detector build
	T     *Tape
	// ReplayBlob, when non-nil, holds bytes recorded by an earlier execution of
	// this run (storage engines: the encoder's output depends on Go map order).
	ReplayBlob []byte

	Viol      *Violation
	Discard   string
	Faults    map[string]int
	Probes    map[string]int
	Steps     int64
	SimTimeNs int64
	Sig       string // non-empty ⇒ run counts as non-trivial; distinct by this string
	Sample    any
	Decoded   any
	Blob      []byte
	Log       []string // event log used for the determinism self-test
	// Degraded is set when the scheduler met blocking it does not model and let threads overlap: the run's
	// interleaving is then not fully decided by the tape and its replay is best-effort.
	Degraded bool
	// Fatal is set when the run left the process in a state that must not be
	// reused (a simulated thread is blocked for real): the worker stops after it.
	Fatal bool
	// SubEvals counts the cases evaluated inside this run when a run enumerates
	// many (storage engines); 0 means the run is one case.
	SubEvals int
	// Others holds further violations of the same run with distinct keys, each
	// with its own replay tape (enumerating engines).
	Others []SubViolation
	// TapeOverride, when set, replaces the consumed tape in the violation record
	// (enumerating engines encode the failing case itself as a tape).
	TapeOverride []uint64
}

// SubViolation is an additional violation found inside an enumerating run.
type SubViolation struct {
	Viol Violation
	Tape []uint64
}

// Fault counts a fault that actually fired.
func (rc *RunCtx) Fault(kind string) {
	if rc.Faults == nil {
		rc.Faults = map[string]int{}
	}
	rc.Faults[kind]++
}

// Probe counts a "rare condition reached" marker.
func (rc *RunCtx) Probe(name string) {
	if rc.Probes == nil {
		rc.Probes = map[string]int{}
	}
	rc.Probes[name]++
}

// Fail records a violation (the first one wins).
func (rc *RunCtx) Fail(class, key, format string, a ...any) {
	if rc.Viol != nil {
		return
	}
	rc.Viol = &Violation{Class: class, Key: key, Detail: fmt.Sprintf(format, a...)}
}

// FailCase records a violation whose replay is the given self-contained tape.
// Distinct keys within one run are all kept.
func (rc *RunCtx) FailCase(tape []uint64, class, key, format string, a ...any) {
	v := Violation{Class: class, Key: key, Detail: fmt.Sprintf(format, a...)}
	if rc.Viol == nil {
		rc.Viol = &v
		rc.TapeOverride = tape
		return
	}
	if rc.Viol.Key == key {
		return
	}
	for _, o := range rc.Others {
		if o.Viol.Key == key {
			return
		}
	}
	rc.Others = append(rc.Others, SubViolation{Viol: v, Tape: tape})
}

// Logf appends to the event log.
func (rc *RunCtx) Logf(format string, a ...any) {
	rc.Log = append(rc.Log, fmt.Sprintf(format, a...))
}

// LogHash is the hash of the event log plus outcome, used to prove determinism.
func (rc *RunCtx) LogHash() uint64 {
	h := fnv.New64a()
	for _, l := range rc.Log {
		h.Write([]byte(l))
		h.Write([]byte{0})
	}
	if rc.Viol != nil {
		h.Write([]byte(rc.Viol.Key))
	}
	h.Write([]byte(rc.Discard))
	h.Write([]byte(rc.Sig))
	return h.Sum64()
}

// Engine is one property's scenario + oracle.
type Engine struct {
	ID          string
	Level       string // evidence level category
	Rule        string // how cases are generated and what makes one non-trivial/distinct
	Assumptions []string
	Real        []string
	Simulated   []string
	// Runs returns the number of run indexes of a tier (plain arm).
	Runs func(tier string) int
	// RaceRuns returns how many of those indexes are re-executed in the race build.
	RaceRuns func(tier string) int
	// Run executes one simulated run.
	Run func(rc *RunCtx)
	// Crashy engines may kill the worker process (fatal runtime errors); the
	// worker then records the index it is executing for attribution.
	Crashy bool
	// Exhaustive reports whether the tier enumerated a finite space completely.
	Exhaustive func(tier string) bool
	// RunTimeout is the watchdog limit of one run (default 180 s).
	RunTimeout time.Duration
	// ShrinkBudget caps shrink executions.
	ShrinkBudget int
	// WallCap is the per-tier wall-clock cap in seconds (only reduces runs).
	WallCap func(tier string) float64
	// Extra returns extra coverage keys (called in the parent after merging).
	Extra func(tier string) map[string]any
}

var engines = map[string]*Engine{}

// Register adds an engine.
func Register(e *Engine) { engines[e.ID] = e }

// Lookup finds an engine.
func Lookup(id string) *Engine { return engines[id] }

// EngineIDs lists registered engines.
func EngineIDs() []string {
	var ids []string
	for k := range engines {
		ids = append(ids, k)
	}
	sort.Strings(ids)
	return ids
}

// Exec runs one index of an engine on a fresh search tape.
func Exec(e *Engine, tier string, seed int64, index int, arm string) *RunCtx {
	rc := &RunCtx{Prop: e.ID, Tier: tier, Seed: seed, Index: index, Arm: arm, T: NewTape(seed, e.ID, index)}
	runGuarded(e, rc)
	return rc
}

// ExecReplay runs an engine from a recorded tape.
func ExecReplay(e *Engine, tier string, seed int64, index int, arm string, tape []uint64, blob []byte) *RunCtx {
	rc := &RunCtx{Prop: e.ID, Tier: tier, Seed: seed, Index: index, Arm: arm, T: ReplayTape(tape), ReplayBlob: blob}
	runGuarded(e, rc)
	return rc
}

// runGuarded executes one engine run. A run in which the allocation guard of a StepCounter ended a generated workload
// is discarded whatever the engine concluded: the guard reads a process-wide counter, so where it strikes is not
// decided by the tape, and a comparison between a guarded and an unguarded execution of the same workload means nothing.
func runGuarded(e *Engine, rc *RunCtx) {
	before := AllocTrips
	e.Run(rc)
	if AllocTrips != before {
		rc.Viol, rc.Others = nil, nil
		rc.Fatal = false
		rc.Discard = "workload-allocates-too-much"
	}
}
