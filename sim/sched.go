package sim

import (
	"fmt"
	"runtime"
	"sort"
	"sync"
	"sync/atomic"
	"time"
	"unsafe"

	"github.com/ozanh/ugo"
)

// Deterministic hand-off scheduler (DESIGN.md §2.2/§2.3).
//
// Simulated threads are real goroutines parked and released one at a time at
// the hook points compiled into /repo under the `verif` tag. A central
// scheduler S (the goroutine that calls Run) owns all scheduling state and
// picks the next thread from the runnable set with a tape draw. Threads talk
// to S only through channels carrying small value messages; the channel
// traffic is bracketed with runtime.RaceDisable/RaceEnable in race builds so
// that the hand-off itself creates no happens-before edge between simulated
// threads and the race detector still sees the code's real races.

// Custom points used by engines (≥1000 so that they never clash with ugo's).
const (
	PDone      = 1000 // thread function returned
	PCancel    = 1001 // thread is about to cancel the Eval context
	PUser      = 1002 // plain yield point in engine code
	PStartWait = 1003 // thread waits until the start condition of the engine holds
)

type smsg struct {
	th    int32
	point int32
	obj   uintptr
}

// SimThread is one simulated thread.
type SimThread struct {
	ID     int
	Name   string
	fn     func()
	resume chan int32
	// thread-local (touched only by the thread itself)
	quantum   int32
	lockDepth int32
	yieldHeld bool // yield once at the next VerifPoolLocked, i.e. while holding the pool lock (Sched.Contend)
	loops     int64 // loop points executed (including those that did not yield)
	// S-owned
	started  bool
	done     bool
	point    int // last reported point
	obj      int // id of the object of the last point
	wantLock int // lock id the thread waits for (at VerifPoolLock), 0 = none
}

// Event is one scheduling step, as recorded in the trace.
type Event struct {
	Thread int
	Point  int
	Obj    int
}

// Sched is the scheduler of one simulated run.
type Sched struct {
	T       *Tape
	threads [16]*SimThread
	n       int
	toS     chan smsg
	cur     atomic.Int32
	spawnID atomic.Int32
	spawned atomic.Int32
	// degraded mode: a resumed thread did not reach its next hook point within the stall period — it is blocked on
	// synchronisation the scheduler does not model (code under test that waits on its own channel or mutex). Instead
	// of raising an alarm the scheduler lets another thread run; from then on hooks identify their thread by
	// goroutine id. Runs that entered this mode are flagged: their interleaving is no longer fully tape-decided.
	degraded  atomic.Bool
	goids     [16]atomic.Int64
	stalled   map[int]bool
	allocBase uint64
	Stall     time.Duration
	killed    atomic.Bool
	ids       map[uintptr]int
	locks     map[int]int // lock id → owner thread id+1 (0 = free)
	Trace     []Event
	Switches  int
	Steps     int64
	MaxSteps  int64
	// Contend lets a pool lock be contended for real (off by default: critical sections are atomic for the scheduler and
	// a thread that wants a held lock is simply not runnable). When set, a thread may be told to yield right after it
	// acquired a pool lock, and a thread that wants that lock may then be resumed all the same: code that waits for the
	// lock blocks for real (the run degrades and is discarded by the engine), code that gives up on a busy lock
	// (TryLock) goes on - which is what this mode exists to see.
	Contend   bool
	Contended int
	// Quantum draws the number of loop points a thread may run before yielding.
	Quantum func(t *Tape) int32
	// Eval protocol state
	cancelled bool
	goDone    bool
	// OnEvent is called by S for every reported event before the next decision.
	OnEvent func(s *Sched, th *SimThread, point, obj int)
	// Choose, when set, directs the schedule in search mode (enumerated
	// placements); its decisions are written onto the tape, so replay and
	// shrinking need no special case. cand[0] is the current thread if runnable.
	Choose func(s *Sched, cand []*SimThread) int
	// Enabled lets the engine veto a thread (in addition to the built-in rules).
	Enabled func(s *Sched, th *SimThread) bool
	// Deadlock / watchdog results
	Deadlock  string
	Overrun   bool
	stop      bool
	wg        sync.WaitGroup
	lastNames map[int]string
}

// NewSched creates a scheduler drawing from t.
func NewSched(t *Tape) *Sched {
	s := &Sched{T: t, toS: make(chan smsg, 32), ids: map[uintptr]int{}, locks: map[int]int{}, MaxSteps: 200000, stalled: map[int]bool{}, Stall: 400 * time.Millisecond}
	s.spawnID.Store(-1)
	return s
}

// curGoid parses the current goroutine's id from its stack header (slow path, degraded mode and registration only).
func curGoid() int64 {
	var buf [40]byte
	n := runtime.Stack(buf[:], false)
	var id int64
	for _, c := range buf[len("goroutine "):n] {
		if c < '0' || c > '9' {
			break
		}
		id = id*10 + int64(c-'0')
	}
	return id
}

// Degraded reports whether the run met blocking the scheduler does not model.
func (s *Sched) Degraded() bool { return s.degraded.Load() }

// Go registers a simulated thread (before Run).
func (s *Sched) Go(name string, fn func()) *SimThread {
	th := &SimThread{ID: s.n, Name: name, fn: fn, resume: make(chan int32, 1)}
	s.threads[s.n] = th
	s.n++
	return th
}

// Point returns the last point the thread reported.
func (th *SimThread) Point() int { return th.point }

// Done reports whether the thread function has returned.
func (th *SimThread) Done() bool { return th.done }

// Loops is the number of VM instructions the thread has executed.
//
//go:norace
func (th *SimThread) Loops() int64 { return th.loops }

// Thread returns thread i.
func (s *Sched) Thread(i int) *SimThread { return s.threads[i] }

// NumThreads is the number of registered threads (including spawned ones).
func (s *Sched) NumThreads() int { return s.n }

// ObjID maps an object address to a small id in order of first appearance.
func (s *Sched) objID(p uintptr) int {
	if p == 0 {
		return 0
	}
	if id, ok := s.ids[p]; ok {
		return id
	}
	id := len(s.ids) + 1
	s.ids[p] = id
	return id
}

// IDOf returns the id S assigned to an object (0 if never seen).
func (s *Sched) IDOf(p unsafe.Pointer) int { return s.ids[uintptr(p)] }

// ClearCancel forgets the cancellation (the next Eval.Run uses a fresh context).
func (s *Sched) ClearCancel() { s.cancelled = false }

// Cancelled reports whether the Eval context has been cancelled.
func (s *Sched) Cancelled() bool { return s.cancelled }

// hook is installed as ugo.VerifHook for the duration of Run.
//
//go:norace
func (s *Sched) hook(p int, obj unsafe.Pointer) {
	if p == ugo.VerifEvalGoEnd {
		// last statement of the goroutine Eval.run started: it is finished for the purposes of Run's final wait
		if s.spawned.Add(-1) >= 0 {
			defer s.wg.Done()
		} else {
			s.spawned.Add(1)
		}
	}
	if s.killed.Load() {
		if p == ugo.VerifLoop {
			runtime.Goexit()
		}
		return
	}
	raceDisable()
	var th *SimThread
	if p == ugo.VerifEvalGoStart {
		slot := s.spawnID.Load()
		if slot < 0 {
			// a goroutine the scheduler was not told about (the spawning thread was not at the spawn point): let it run free
			raceEnable()
			return
		}
		th = s.threads[slot]
		s.goids[slot].Store(curGoid())
	} else if s.degraded.Load() {
		g := curGoid()
		for i := range s.goids {
			if s.goids[i].Load() == g {
				th = s.threads[i]
				break
			}
		}
		if th == nil {
			raceEnable()
			return
		}
	} else {
		th = s.threads[s.cur.Load()]
	}
	switch p {
	case ugo.VerifLoop:
		th.loops++
		if th.lockDepth > 0 {
			raceEnable()
			return
		}
		th.quantum--
		if th.quantum > 0 {
			raceEnable()
			return
		}
	case ugo.VerifPoolLock:
		if th.lockDepth > 0 {
			th.lockDepth++
			raceEnable()
			return
		}
		th.lockDepth = 1
	case ugo.VerifPoolUnlocked:
		th.lockDepth--
		if th.lockDepth > 0 {
			raceEnable()
			return
		}
	case ugo.VerifPoolLocked:
		if th.lockDepth == 1 && th.yieldHeld {
			th.yieldHeld = false // park while holding the lock
		} else if th.lockDepth > 0 {
			raceEnable()
			return
		}
	default:
		// while a pool lock is held the critical section is atomic for the scheduler
		if th.lockDepth > 0 {
			raceEnable()
			return
		}
	}
	s.toS <- smsg{int32(th.ID), int32(p), uintptr(obj)}
	q := <-th.resume
	th.yieldHeld = q&yieldHeldFlag != 0
	th.quantum = q &^ yieldHeldFlag
	raceEnable()
	if s.killed.Load() && p == ugo.VerifLoop {
		runtime.Goexit()
	}
}

const yieldHeldFlag = 1 << 30

// Point is a yield point in engine code running on a simulated thread.
//
//go:norace
func (s *Sched) Point(p int) {
	s.hook(p, nil)
}

func (s *Sched) startThread(th *SimThread) {
	th.started = true
	s.wg.Add(1)
	go func() {
		defer s.wg.Done()
		s.goids[th.ID].Store(curGoid())
		raceDisable()
		q := <-th.resume
		th.quantum = q
		raceEnable()
		defer func() {
			// also reached through runtime.Goexit in kill mode
			if !s.killed.Load() {
				raceDisable()
				s.toS <- smsg{int32(th.ID), PDone, 0}
				raceEnable()
			}
		}()
		if s.killed.Load() {
			return
		}
		th.fn()
	}()
}

func (s *Sched) lockOwner(id int) int { return s.locks[id] - 1 }

// runnable reports whether S may resume th now.
func (s *Sched) runnable(th *SimThread) bool {
	if th.done || s.stalled[th.ID] {
		return false
	}
	if th.wantLock != 0 && s.locks[th.wantLock] != 0 {
		// (Contend: the holder parked inside its critical section; the contender may walk into the real mutex)
		if holder := s.threads[s.locks[th.wantLock]-1]; !(s.Contend && holder != th && holder.point == ugo.VerifPoolLocked) {
			return false
		}
	}
	switch th.point {
	case ugo.VerifEvalSelect2:
		// the second select of Eval.run: ready when exactly one case is ready
		if !(s.cancelled || s.goDone) {
			return false
		}
	case ugo.VerifEvalWaitDone:
		if !s.goDone {
			return false
		}
	case ugo.VerifEvalGoClosing:
		// never let doneCh close while the waiter sits at the select with a cancelled context (two ready cases)
		if s.cancelled && s.anyAt(ugo.VerifEvalSelect2) {
			return false
		}
	case PCancel:
		// never cancel while the waiter sits at the select and doneCh is already closed (two ready cases)
		if s.goDone && s.anyAt(ugo.VerifEvalSelect2) {
			return false
		}
	}
	if s.Enabled != nil && !s.Enabled(s, th) {
		return false
	}
	return true
}

func (s *Sched) anyAt(point int) bool {
	for i := 0; i < s.n; i++ {
		if th := s.threads[i]; !th.done && th.started && th.point == point {
			return true
		}
	}
	return false
}

// process records one message from a thread.
func (s *Sched) process(m smsg) {
	th := s.threads[m.th]
	oid := s.objID(m.obj)
	// what the thread did by being resumed from its previous point
	switch th.point {
	case PCancel:
		s.cancelled = true
	}
	th.point = int(m.point)
	th.obj = oid
	th.wantLock = 0
	switch int(m.point) {
	case PDone:
		th.done = true
	case ugo.VerifPoolLock:
		th.wantLock = oid
	case ugo.VerifPoolUnlocked:
		if s.locks[oid] == th.ID+1 {
			s.locks[oid] = 0
		}
	case ugo.VerifEvalBeforeGo:
		s.goDone = false
	case ugo.VerifEvalGoEnd:
		// the last statement of the goroutine Eval.run started: release it for good
		s.goDone = true
		th.done = true
		th.resume <- 1
	case ugo.VerifLoop:
		s.Steps++
	}
	s.Trace = append(s.Trace, Event{int(m.th), int(m.point), oid})
	if s.OnEvent != nil {
		s.OnEvent(s, th, int(m.point), oid)
	}
}

func (s *Sched) recv(d time.Duration) (smsg, bool) {
	select {
	case m := <-s.toS:
		return m, true
	default:
	}
	tm := time.NewTimer(d)
	defer tm.Stop()
	select {
	case m := <-s.toS:
		return m, true
	case <-tm.C:
		return smsg{}, false
	}
}

// Run executes the registered threads to completion under the tape's schedule.
// It returns an error only for harness trouble (watchdog).
//
//go:norace
func (s *Sched) Run() error {
	prev := ugo.VerifHook
	ugo.VerifHook = s.hook
	defer func() { ugo.VerifHook = prev }()
	// goroutine creation is a real happens-before edge (thread setup → thread); only the hand-offs are hidden
	for i := 0; i < s.n; i++ {
		s.startThread(s.threads[i])
	}
	raceDisable()
	defer raceEnable()
	current := -1
	for {
		// runnable set, current thread first (0 on the tape = keep running it)
		var cand []*SimThread
		if current >= 0 && s.runnable(s.threads[current]) {
			cand = append(cand, s.threads[current])
		}
		alive := 0
		for i := 0; i < s.n; i++ {
			th := s.threads[i]
			if th.done {
				continue
			}
			alive++
			if i != current && s.runnable(th) {
				cand = append(cand, th)
			}
		}
		if alive == 0 {
			break
		}
		if s.stop {
			s.kill()
			break
		}
		if len(cand) == 0 && len(s.stalled) > 0 {
			// everything that could run is blocked for real: wait for one of them to come back
			m, ok := s.recv(20 * time.Second)
			if !ok {
				s.kill()
				s.waitThreads(5 * time.Second)
				return fmt.Errorf("watchdog: simulated threads are blocked for real and nothing else is runnable; state: %s", s.describe())
			}
			delete(s.stalled, int(m.th))
			s.process(m)
			continue
		}
		if len(cand) == 0 {
			s.Deadlock = s.describe()
			s.kill()
			break
		}
		if len(s.Trace)&63 == 0 {
			// allocation guard (see StepCounter)
			a := heapAllocBytes()
			if s.allocBase == 0 {
				s.allocBase = a
			} else if a-s.allocBase > 2<<30 {
				s.Steps = s.MaxSteps + 1
			}
		}
		if s.Steps > s.MaxSteps || len(s.Trace) > int(4*s.MaxSteps) {
			s.Overrun = true
			s.kill()
			break
		}
		pick := cand[0]
		if len(cand) > 1 {
			if s.Choose != nil && !s.T.IsReplay() {
				pick = cand[s.T.Force(s.Choose(s, cand), len(cand))]
			} else {
				pick = cand[s.T.Draw(len(cand))]
			}
		}
		if pick.ID != current {
			s.Switches++
		}
		current = pick.ID
		yieldHeld := false
		if pick.wantLock != 0 {
			if s.locks[pick.wantLock] == 0 {
				s.locks[pick.wantLock] = pick.ID + 1
				yieldHeld = s.Contend && s.T.Bool(1, 2)
			} else {
				s.Contended++ // resumed into a lock that is held
			}
		}
		q := int32(1)
		if s.Quantum != nil {
			q = s.Quantum(s.T)
		}
		if yieldHeld {
			q |= yieldHeldFlag
		}
		spawning := pick.point == ugo.VerifEvalBeforeGo
		if spawning {
			// the next slot receives the goroutine Eval.run is about to start
			slot := s.n
			s.threads[slot] = &SimThread{ID: slot, Name: "eval-runner", resume: make(chan int32, 1), started: true}
			s.n++
			s.spawnID.Store(int32(slot))
			s.wg.Add(1)
			s.spawned.Add(1)
		}
		s.cur.Store(int32(pick.ID))
		pick.resume <- q
		outstanding := map[int]bool{pick.ID: true}
		if spawning {
			outstanding[s.n-1] = true // the child's first point
		}
		var got []smsg
		for len(outstanding) > 0 {
			m, ok := s.recv(s.Stall)
			if ok {
				got = append(got, m)
				delete(outstanding, int(m.th))
				delete(s.stalled, int(m.th))
				continue
			}
			// the resumed thread(s) did not reach a hook point: blocked on synchronisation we do not model.
			// Let the others run; the blocked thread reports when it gets there.
			s.degraded.Store(true)
			for id := range outstanding {
				s.stalled[id] = true
				delete(outstanding, id)
			}
		}
		if spawning {
			s.spawnID.Store(-1)
		}
		// process in a fixed order: the picked thread first, then by thread id
		sort.SliceStable(got, func(i, j int) bool {
			pi, pj := int(got[i].th) != pick.ID, int(got[j].th) != pick.ID
			if pi != pj {
				return !pi
			}
			return got[i].th < got[j].th
		})
		for _, m := range got {
			s.process(m)
		}
	}
	raceEnable()
	var err error
	if !s.waitThreads(20 * time.Second) {
		err = fmt.Errorf("watchdog: simulated threads did not finish within 20s after the run ended; state: %s", s.describe())
	}
	raceDisable()
	return err
}

// waitThreads waits for every simulated goroutine to end.
func (s *Sched) waitThreads(d time.Duration) bool {
	done := make(chan struct{})
	go func() { s.wg.Wait(); close(done) }()
	select {
	case <-done:
		return true
	case <-time.After(d):
		return false
	}
}

// kill releases every parked thread into free-running mode: hooks become
// no-ops except the loop point, which ends the goroutine.
func (s *Sched) kill() {
	s.killed.Store(true)
	for i := 0; i < s.n; i++ {
		th := s.threads[i]
		if !th.done {
			select {
			case th.resume <- 1:
			default:
			}
		}
	}
}

func (s *Sched) describe() string {
	out := ""
	for i := 0; i < s.n; i++ {
		th := s.threads[i]
		out += fmt.Sprintf("[t%d %s done=%v point=%d obj=%d wantLock=%d] ", th.ID, th.Name, th.done, th.point, th.obj, th.wantLock)
	}
	out += fmt.Sprintf("cancelled=%v goDone=%v locks=%v", s.cancelled, s.goDone, s.locks)
	return out
}

// TotalLoops is the number of VM instructions executed so far by all threads.
// Only valid while every thread is parked (inside OnEvent / after Run).
//
//go:norace
func (s *Sched) TotalLoops() int64 {
	var n int64
	for i := 0; i < s.n; i++ {
		n += s.threads[i].loops
	}
	return n
}

// Killed reports whether the run has been ended; thread functions check it
// before starting follow-up work.
func (s *Sched) Killed() bool { return s.killed.Load() }

// Kill ends the run: every thread is released and stops at its next instruction.
func (s *Sched) Kill() { s.stop = true }

// TraceHash summarises the schedule (thread, point, object) sequence.
func (s *Sched) TraceHash() uint64 {
	var h uint64 = 14695981039346656037
	for _, e := range s.Trace {
		for _, v := range [3]int{e.Thread, e.Point, e.Obj} {
			h ^= uint64(v + 1)
			h *= 1099511628211
		}
	}
	return h
}

// SwitchHash summarises only the context-switch positions.
func (s *Sched) SwitchHash() uint64 {
	var h uint64 = 14695981039346656037
	last := -1
	for i, e := range s.Trace {
		if e.Thread != last {
			h ^= uint64(i*31 + e.Thread + 1)
			h *= 1099511628211
			last = e.Thread
		}
	}
	return h
}
