package sim

import "time"

// Shrink minimises a failing tape. fails must be a pure function of the tape:
// it re-executes the run in replay mode and reports whether the *same*
// violation key is still observed; it returns the tape prefix actually used.
// Passes: delete spans, zero spans, lower single values. Bounded by budget
// executions.
func Shrink(vals []uint64, budget int, fails func([]uint64) (used []uint64, ok bool)) ([]uint64, int) {
	return ShrinkUntil(vals, budget, time.Time{}, fails)
}

// ShrinkUntil is Shrink with a wall-clock deadline (zero = none): a violation
// that makes every execution slow (loops up to the step cap) must not stall
// the report.
func ShrinkUntil(vals []uint64, budget int, deadline time.Time, fails func([]uint64) (used []uint64, ok bool)) ([]uint64, int) {
	cur := append([]uint64(nil), vals...)
	execs := 0
	try := func(cand []uint64) bool {
		if execs >= budget {
			return false
		}
		if !deadline.IsZero() && execs > 0 && time.Now().After(deadline) {
			execs = budget
			return false
		}
		execs++
		used, ok := fails(cand)
		if !ok {
			return false
		}
		if len(used) < len(cand) {
			cand = cand[:len(used)]
		}
		// strip trailing zeros: an exhausted tape yields 0 anyway
		for len(cand) > 0 && cand[len(cand)-1] == 0 {
			cand = cand[:len(cand)-1]
		}
		cur = append(cur[:0:0], cand...)
		return true
	}
	try(cur) // normalise to used prefix
	for improved := true; improved && execs < budget; {
		improved = false
		// delete spans
		for size := len(cur) / 2; size >= 1; size /= 2 {
			for i := 0; i+size <= len(cur) && execs < budget; {
				cand := append(append([]uint64(nil), cur[:i]...), cur[i+size:]...)
				if try(cand) {
					improved = true
				} else {
					i += size
				}
			}
		}
		// zero spans
		for size := len(cur) / 2; size >= 1; size /= 2 {
			for i := 0; i+size <= len(cur) && execs < budget; i += size {
				allZero := true
				for _, v := range cur[i : i+size] {
					if v != 0 {
						allZero = false
						break
					}
				}
				if allZero {
					continue
				}
				cand := append([]uint64(nil), cur...)
				for j := i; j < i+size; j++ {
					cand[j] = 0
				}
				if try(cand) {
					improved = true
				}
			}
		}
		// lower single values
		for i := 0; i < len(cur) && execs < budget; i++ {
			for cur[i] > 0 && execs < budget {
				v := cur[i]
				ok := false
				for _, nv := range []uint64{v / 2, v - 1} {
					if nv >= v {
						continue
					}
					cand := append([]uint64(nil), cur...)
					cand[i] = nv
					if try(cand) {
						ok = true
						improved = true
						break
					}
					if i >= len(cur) {
						break
					}
				}
				if !ok || i >= len(cur) {
					break
				}
			}
		}
	}
	return cur, execs
}
