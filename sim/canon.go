package sim

import (
	"errors"
	"fmt"
	"math"
	"sort"
	"strconv"
	"strings"

	"github.com/ozanh/ugo"
)

// HostObject is implemented by simulator-owned objects so that the canonical
// printer names them by id.
type HostObject interface{ CanonID() string }

// Canon renders an object in a canonical form that does not depend on map
// iteration order, pointer values or String() implementations.
func Canon(o ugo.Object) string {
	var sb strings.Builder
	canon(&sb, o, 0)
	return sb.String()
}

func canon(sb *strings.Builder, o ugo.Object, depth int) {
	if depth > 12 {
		sb.WriteString("<deep>")
		return
	}
	switch v := o.(type) {
	case nil:
		sb.WriteString("<nil>")
	case *ugo.UndefinedType:
		sb.WriteString("undefined")
	case ugo.Int:
		sb.WriteString("i:")
		sb.WriteString(strconv.FormatInt(int64(v), 10))
	case ugo.Uint:
		sb.WriteString("u:")
		sb.WriteString(strconv.FormatUint(uint64(v), 10))
	case ugo.Char:
		sb.WriteString("c:")
		sb.WriteString(strconv.FormatInt(int64(v), 10))
	case ugo.Float:
		sb.WriteString("f:")
		sb.WriteString(strconv.FormatUint(math.Float64bits(float64(v)), 16))
	case ugo.Bool:
		if v {
			sb.WriteString("true")
		} else {
			sb.WriteString("false")
		}
	case ugo.String:
		sb.WriteString("s:")
		sb.WriteString(strconv.Quote(string(v)))
	case ugo.Bytes:
		sb.WriteString("b:")
		sb.WriteString(fmt.Sprintf("%x", []byte(v)))
	case ugo.Array:
		sb.WriteByte('[')
		for i, e := range v {
			if i > 0 {
				sb.WriteByte(',')
			}
			canon(sb, e, depth+1)
		}
		sb.WriteByte(']')
	case ugo.Map:
		canonMap(sb, v, depth)
	case *ugo.SyncMap:
		sb.WriteString("sync")
		v.RLock()
		canonMap(sb, v.Value, depth)
		v.RUnlock()
	case *ugo.ObjectPtr:
		sb.WriteString("ptr(")
		if v.Value != nil {
			canon(sb, *v.Value, depth+1)
		}
		sb.WriteByte(')')
	case *ugo.CompiledFunction:
		sb.WriteString("fn:compiled")
	case *ugo.Function:
		sb.WriteString("fn:host:" + v.Name)
	case *ugo.BuiltinFunction:
		sb.WriteString("fn:builtin:" + v.Name)
	case *ugo.Error:
		sb.WriteString("error(" + v.Name + ":" + strconv.Quote(stripStack(v.Message)) + ")")
	case *ugo.RuntimeError:
		if v.Err == nil {
			sb.WriteString("rterror(<nil>)")
		} else {
			sb.WriteString("error(" + v.Err.Name + ":" + strconv.Quote(stripStack(v.Err.Message)) + ")")
		}
	case HostObject:
		sb.WriteString("host:" + v.CanonID())
	default:
		sb.WriteString("<" + safeTypeName(o) + ">")
	}
}

// safeTypeName tolerates objects that embed ObjectImpl without overriding TypeName (it panics).
func safeTypeName(o ugo.Object) (name string) {
	defer func() {
		if recover() != nil {
			name = fmt.Sprintf("%T", o)
		}
	}()
	return o.TypeName()
}

func canonMap(sb *strings.Builder, m ugo.Map, depth int) {
	keys := make([]string, 0, len(m))
	for k := range m {
		keys = append(keys, k)
	}
	sort.Strings(keys)
	sb.WriteByte('{')
	for i, k := range keys {
		if i > 0 {
			sb.WriteByte(',')
		}
		sb.WriteString(strconv.Quote(k))
		sb.WriteByte(':')
		canon(sb, m[k], depth+1)
	}
	sb.WriteByte('}')
}

func stripStack(s string) string {
	if i := strings.Index(s, "\nGo Stack:"); i >= 0 {
		s = s[:i]
	}
	return s
}

// CanonErr renders an error returned by Run/Invoke/Eval as Name+Message with
// Go stack text stripped.
func CanonErr(err error) string {
	if err == nil {
		return "<noerr>"
	}
	var re *ugo.RuntimeError
	if errors.As(err, &re) && re.Err != nil {
		// a panic is wrapped as fmt.Errorf("panic: %v %w\nGo Stack..."): keep
		// the outer text (without stack) only when it differs.
		outer := stripStack(err.Error())
		inner := "error(" + re.Err.Name + ":" + strconv.Quote(stripStack(re.Err.Message)) + ")"
		if outer != re.Error() && strings.HasPrefix(outer, "panic:") {
			return "panic+" + inner
		}
		return inner
	}
	var e *ugo.Error
	if errors.As(err, &e) {
		return "error(" + e.Name + ":" + strconv.Quote(stripStack(e.Message)) + ")"
	}
	return "goerr(" + strconv.Quote(stripStack(err.Error())) + ")"
}

// Outcome is the canonical result of one run.
type Outcome struct {
	Kind  string // "value" | "error"
	Value string
	Hist  []string
}

func (o Outcome) String() string {
	return o.Kind + "=" + o.Value + " hist=[" + strings.Join(o.Hist, " | ") + "]"
}

// Equal reports whether two outcomes are identical.
func (o Outcome) Equal(p Outcome) bool {
	if o.Kind != p.Kind || o.Value != p.Value || len(o.Hist) != len(p.Hist) {
		return false
	}
	for i := range o.Hist {
		if o.Hist[i] != p.Hist[i] {
			return false
		}
	}
	return true
}

// MakeOutcome builds an Outcome from Run's return values and a history.
func MakeOutcome(v ugo.Object, err error, hist []string) Outcome {
	if err != nil {
		return Outcome{Kind: "error", Value: CanonErr(err), Hist: append([]string(nil), hist...)}
	}
	return Outcome{Kind: "value", Value: Canon(v), Hist: append([]string(nil), hist...)}
}

// Fingerprint is a canonical semantic rendering of a Bytecode: everything a VM
// reads, except the SourceFileSet.LastFile cache word (a correct
// implementation may update that cache with proper synchronisation).
func Fingerprint(bc *ugo.Bytecode) string {
	if bc == nil {
		return "<nil bytecode>"
	}
	var sb strings.Builder
	fmt.Fprintf(&sb, "nummodules=%d\n", bc.NumModules)
	if bc.FileSet != nil {
		fmt.Fprintf(&sb, "fileset base=%d\n", bc.FileSet.Base)
		for _, f := range bc.FileSet.Files {
			if f == nil {
				sb.WriteString(" file <nil>\n")
				continue
			}
			fmt.Fprintf(&sb, " file %q base=%d size=%d lines=%v\n", f.Name, f.Base, f.Size, f.Lines)
		}
	}
	sb.WriteString("main ")
	fpFunc(&sb, bc.Main)
	for i, c := range bc.Constants {
		fmt.Fprintf(&sb, "const %d ", i)
		if cf, ok := c.(*ugo.CompiledFunction); ok {
			fpFunc(&sb, cf)
		} else {
			sb.WriteString(Canon(c))
			sb.WriteByte('\n')
		}
	}
	return sb.String()
}

func fpFunc(sb *strings.Builder, cf *ugo.CompiledFunction) {
	if cf == nil {
		sb.WriteString("<nil fn>\n")
		return
	}
	fmt.Fprintf(sb, "fn params=%d locals=%d variadic=%v free=%d insts=%x srcmap=", cf.NumParams, cf.NumLocals, cf.Variadic, len(cf.Free), cf.Instructions)
	keys := make([]int, 0, len(cf.SourceMap))
	for k := range cf.SourceMap {
		keys = append(keys, k)
	}
	sort.Ints(keys)
	for _, k := range keys {
		fmt.Fprintf(sb, "%d:%d,", k, cf.SourceMap[k])
	}
	sb.WriteByte('\n')
}
