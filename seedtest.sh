#!/bin/bash
# Runs a check against a seeded (deliberately broken) version of ozanh/ugo without touching /repo:
#   ./seedtest.sh seeded/<id> [quick|thorough] [--confirm]
# A scratch worktree of /repo's HEAD is created under /tmp, seeded/<id>/patch.diff is applied, the property's check runs
# against it (VERIF_REPO side mode: binaries, evidence and replays go to a scratch directory), the worktree is removed.
# --confirm first re-verifies the seeded change itself: it compiles, the unedited suite passes with it, the
# demonstration fails with it and passes without it.
# Prints one line: SEEDED <id> property=<P> tier=<t> caught=yes|no exit=<code> [key=...]
set -u
cd "$(dirname "$0")"
export GOFLAGS=-mod=mod GOPROXY=off GOSUMDB=off GOTOOLCHAIN=local
dir="${1%/}"; tier="${2:-quick}"; confirm="${3:-}"
id=$(basename "$dir")
prop=$(python3 -c "import json,sys;print(json.load(open(sys.argv[1]))['property'])" "$dir/meta.json")
prop="${SEED_PROP:-$prop}"   # SEED_PROP=<id> runs another property's check against the change
wt=$(mktemp -d /tmp/seedwt-XXXXXX); side=$(mktemp -d /tmp/seedbin-XXXXXX)
cleanup() { git -C /repo worktree remove --force "$wt" >/dev/null 2>&1; rm -rf "$wt" "$side"; git -C /repo worktree prune; }
trap cleanup EXIT
rmdir "$wt"; git -C /repo worktree add -q --detach "$wt" HEAD || exit 2
if [ "$confirm" = "--confirm" ]; then
	demo=$(python3 -c "import json,sys;d=json.load(open(sys.argv[1]))['demo'];print(d['file']+'|'+d['copy_to']+'|'+d['run'])" "$dir/meta.json")
	dfile=${demo%%|*}; rest=${demo#*|}; dcopy=${rest%%|*}; drun=${rest#*|}
	cp "$dir/$dfile" "$wt/$dcopy"
	( cd "$wt" && timeout 600 bash -c "$drun" ) >"$side/demo-clean.log" 2>&1; clean=$?
	git -C "$wt" apply "$(pwd)/$dir/patch.diff" 2>/dev/null || git -C "$wt" apply --3way "$(pwd)/$dir/patch.diff" || { echo "SEEDED $id: patch does not apply"; exit 2; }
	( cd "$wt" && timeout 600 bash -c "$drun" ) >"$side/demo-seeded.log" 2>&1; seeded=$?
	rm -f "$wt/$dcopy"
	( cd "$wt" && timeout 900 go build ./... && timeout 1500 go test -vet=off -count=1 ./... ) >"$side/suite.log" 2>&1; suite=$?
	echo "CONFIRM $id: demo_without_change_exit=$clean demo_with_change_exit=$seeded suite_with_change_exit=$suite"
	if [ $clean -ne 0 ] || [ $seeded -eq 0 ] || [ $suite -ne 0 ]; then echo "CONFIRM $id: NOT CONFIRMED"; tail -5 "$side/suite.log"; fi
else
	git -C "$wt" apply "$(pwd)/$dir/patch.diff" 2>/dev/null || git -C "$wt" apply --3way "$(pwd)/$dir/patch.diff" || { echo "SEEDED $id: patch does not apply"; exit 2; }
fi
VERIF_REPO="$wt" VERIF_BIN="$side" ./check "$prop" "$tier" > "$side/check.log" 2>&1; rc=$?
key=$(grep -m3 -o "key=[^ ]*" "$side/check.log" | tr '\n' ' ')
caught=no; [ $rc -eq 1 ] && caught=yes
echo "SEEDED $id property=$prop tier=$tier caught=$caught exit=$rc $key"
[ $rc -ge 2 ] && tail -15 "$side/check.log"
mkdir -p /tmp/w/seedlogs; cp "$side/check.log" "/tmp/w/seedlogs/$id.$tier.log"
exit 0
