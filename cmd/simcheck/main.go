// simcheck: deterministic simulation checks for ozanh/ugo.
//
//	simcheck run <prop> --tier quick|thorough --seed N
//	simcheck replay <file>
//	simcheck shrink <in> <out>
//	simcheck one <prop> --tier T --seed N --index I     (debugging: print one run)
//	simcheck hashes <prop> --tier T --seed N --runs R   (determinism self-test helper)
//	simcheck worker ...                                 (internal)
package main

import (
	"encoding/json"
	"flag"
	"fmt"
	"os"
	"strconv"
	"time"

	"verif/engines"
	"verif/sim"
)

func main() {
	if len(os.Args) < 2 {
		fmt.Fprintln(os.Stderr, "usage: simcheck run|replay|shrink|one|hashes|list ...")
		os.Exit(2)
	}
	cmd := os.Args[1]
	switch cmd {
	case "debuggen":
		n, _ := strconv.Atoi(os.Args[2])
		show, _ := strconv.Atoi(os.Args[3])
		engines.DebugGen(envSeed(), n, show)
	case "debugc04":
		n, _ := strconv.Atoi(os.Args[2])
		engines.DebugC04Prog(envSeed(), n)
	case "debugprog":
		n, _ := strconv.Atoi(os.Args[2])
		engines.DebugProg(envSeed(), n)
	case "c04decode":
		if err := engines.C04DecodeOnly(os.Stdin, os.Stdout); err != nil {
			fmt.Fprintln(os.Stderr, "c04decode:", err)
			os.Exit(2)
		}
	case "list":
		for _, id := range sim.EngineIDs() {
			fmt.Println(id)
		}
	case "run", "worker", "one", "hashes":
		if len(os.Args) < 3 {
			fmt.Fprintln(os.Stderr, "missing property")
			os.Exit(2)
		}
		prop := os.Args[2]
		fs := flag.NewFlagSet(cmd, flag.ExitOnError)
		tier := fs.String("tier", envOr("VERIF_TIER", "quick"), "quick|thorough")
		seed := fs.Int64("seed", envSeed(), "VERIF_SEED")
		workers := fs.Int("workers", 0, "worker processes (default: NumCPU)")
		shard := fs.Int("shard", 0, "")
		of := fs.Int("of", 1, "")
		runs := fs.Int("runs", 0, "")
		arm := fs.String("arm", "", "")
		deadline := fs.Int64("deadline", 0, "")
		progress := fs.String("progress", "", "")
		index := fs.Int("index", 0, "")
		startIdx := fs.Int("start", 0, "first run index (hashes)")
		fs.Parse(os.Args[3:])
		switch cmd {
		case "run":
			self, _ := os.Executable()
			os.Exit(sim.RunCheck(sim.Options{Prop: prop, Tier: *tier, Seed: *seed, Workers: *workers, RaceBin: os.Getenv("VERIF_RACE_BIN"), Self: self}))
		case "worker":
			var dl time.Time
			if *deadline != 0 {
				dl = time.Unix(0, *deadline)
			}
			os.Exit(sim.Worker(prop, *tier, *seed, *shard, *of, *runs, *arm, dl, *progress))
		case "one":
			e := sim.Lookup(prop)
			if e == nil {
				fmt.Fprintln(os.Stderr, "unknown property")
				os.Exit(2)
			}
			rc := sim.Exec(e, *tier, *seed, *index, *arm)
			out := map[string]any{"violation": rc.Viol, "discard": rc.Discard, "faults": rc.Faults, "probes": rc.Probes,
				"steps": rc.Steps, "sig": rc.Sig, "sample": rc.Sample, "decoded": rc.Decoded, "log": rc.Log, "tape_len": rc.T.Pos(), "log_hash": fmt.Sprintf("%016x", rc.LogHash())}
			b, _ := json.MarshalIndent(out, "", " ")
			fmt.Println(string(b))
		case "hashes":
			e := sim.Lookup(prop)
			if e == nil {
				fmt.Fprintln(os.Stderr, "unknown property")
				os.Exit(2)
			}
			for i := *startIdx; i < *startIdx+*runs; i++ {
				rc := sim.Exec(e, *tier, *seed, i, *arm)
				fmt.Printf("%d %016x\n", i, rc.LogHash())
			}
		}
	case "replay":
		if len(os.Args) < 3 {
			fmt.Fprintln(os.Stderr, "missing file")
			os.Exit(2)
		}
		vr, rc, err := sim.ReplayFile(os.Args[2])
		if err != nil {
			fmt.Fprintln(os.Stderr, "replay:", err)
			os.Exit(2)
		}
		if rc.Viol == nil {
			fmt.Printf("NOT-REPRODUCED property=%s expected key=%s\n", vr.Property, vr.Viol.Key)
			os.Exit(0)
		}
		fmt.Printf("REPRODUCED key=%s class=%s\n", rc.Viol.Key, rc.Viol.Class)
		if rc.Viol.Key != vr.Viol.Key {
			fmt.Printf("note: recorded key was %s\n", vr.Viol.Key)
		}
		fmt.Printf("VIOLATION property=%s replay=%s\n", vr.Property, os.Args[2])
		fmt.Println(rc.Viol.Detail)
		if rc.Decoded != nil {
			b, _ := json.MarshalIndent(rc.Decoded, "", " ")
			fmt.Println(string(b))
		}
		os.Exit(1)
	case "shrink":
		if len(os.Args) < 4 {
			fmt.Fprintln(os.Stderr, "usage: shrink in out")
			os.Exit(2)
		}
		if err := sim.ShrinkFile(os.Args[2], os.Args[3]); err != nil {
			fmt.Fprintln(os.Stderr, "shrink:", err)
			os.Exit(2)
		}
	default:
		fmt.Fprintln(os.Stderr, "unknown command", cmd)
		os.Exit(2)
	}
}

func envOr(k, d string) string {
	if v := os.Getenv(k); v != "" {
		return v
	}
	return d
}

func envSeed() int64 {
	if v := os.Getenv("VERIF_SEED"); v != "" {
		if n, err := strconv.ParseInt(v, 10, 64); err == nil {
			return n
		}
	}
	return 1
}
