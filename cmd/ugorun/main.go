// ugorun: debugging aid — runs a script file in a default host world.
package main

import (
	"fmt"
	"os"

	"github.com/ozanh/ugo"
	"verif/engines"
	"verif/sim"
)


func main() {
	src, err := os.ReadFile(os.Args[1])
	if err != nil {
		panic(err)
	}
	mm := engines.DefaultModuleMap()
	opts := ugo.CompilerOptions{ModuleMap: mm}
	if len(os.Args) > 2 && os.Args[2] == "noopt" {
		opts.NoOptimize = true
	}
	bc, err := ugo.Compile(src, opts)
	if err != nil {
		fmt.Println("COMPILE ERROR:", err)
		os.Exit(1)
	}
	w := sim.NewWorld(&sim.WorldSpec{Name: "w0"}, nil)
	vm := ugo.NewVM(bc).SetRecover(true)
	v, err := vm.Run(w.Globals)
	fmt.Println(sim.MakeOutcome(v, err, w.Hist))
	if err != nil {
		fmt.Printf("%+v\n", err)
	}
}
