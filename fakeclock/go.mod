module verif/fakeclock

go 1.25

require (
	github.com/ozanh/ugo v0.0.0
	verif v0.0.0
)

replace github.com/ozanh/ugo => /repo

replace verif => ../
