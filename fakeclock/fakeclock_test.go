// Fake-clock arm of C09 (DESIGN.md §3 C09, scenario C). Needs go1.26.8
// (testing/synctest): every timer and time.Sleep inside the bubble reads a fake
// clock, so minute-long sleeps cost microseconds and the instant of Abort /
// context timeout is a drawn value of simulated time.
package fakeclock

import (
	"bytes"
	"context"
	"encoding/json"
	"errors"
	"fmt"
	"os"
	"path/filepath"
	"strconv"
	"testing"
	"testing/synctest"
	"time"
	"unsafe"

	"github.com/ozanh/ugo"
	"github.com/ozanh/ugo/encoder"
	ugostrings "github.com/ozanh/ugo/stdlib/strings"
	ugotime "github.com/ozanh/ugo/stdlib/time"
	"verif/sim"
)

type shape struct {
	name string
	src  string
	eval bool // run through Eval.Run with a context deadline instead of VM.Run + Abort
}

var shapes = []shape{
	{"sleep-top", "time := import(\"time\")\ntime.Sleep(time.Hour)\nreturn 1\n", false},
	{"sleep-in-callee", "time := import(\"time\")\nf := func(d) { time.Sleep(d); return 1 }\nreturn f(time.Hour)\n", false},
	{"sleep-in-child", "time := import(\"time\")\nf := func() { time.Sleep(time.Hour); return 1 }\nreturn call(f)\n", false},
	{"sleep-in-strings-map", "time := import(\"time\")\ns := import(\"strings\")\nreturn s.Map(func(c) { time.Sleep(time.Hour); return c }, \"ab\")\n", false},
	{"sleep-loop", "time := import(\"time\")\nfor { time.Sleep(70 * time.Millisecond) }\n", false},
	{"eval-timeout-sleep-loop", "time := import(\"time\")\nfor { time.Sleep(70 * time.Millisecond) }\n", true},
	{"eval-timeout-long-sleep", "time := import(\"time\")\nf := func() { time.Sleep(time.Hour); return 1 }\nreturn call(f)\n", true},
}

type result struct {
	Index     int     `json:"index"`
	Shape     string  `json:"shape"`
	AbortAtMs float64 `json:"abort_or_deadline_at_ms"`
	ReturnMs  float64 `json:"returned_at_ms"`
	Err       string  `json:"error"`
	Decoded   bool    `json:"bytecode_decoded,omitempty"`
	// AtInstruction > 0: Abort was called at that instruction boundary of the run
	AtInstruction int `json:"abort_at_instruction,omitempty"`
	Violation string  `json:"violation,omitempty"`
}

func moduleMap() *ugo.ModuleMap {
	mm := ugo.NewModuleMap()
	mm.AddBuiltinModule("time", ugotime.Module)
	mm.AddBuiltinModule("strings", ugostrings.Module)
	return mm
}

func runOne(t *testing.T, seed int64, index int) (res result) {
	tape := sim.NewTape(seed, "C09-fakeclock", index)
	sh := shapes[tape.Draw(len(shapes))]
	// never a multiple of the 10 ms poll period: no two timers tie
	at := time.Duration(tape.Draw(300))*10*time.Millisecond + time.Duration(1+tape.Draw(9))*time.Millisecond + time.Duration(tape.Draw(1000))*time.Microsecond
	pooled := tape.Bool(1, 2)
	// VM shapes: a third run Bytecode that went through the encoder; a third are aborted by the host from inside the
	// interpreter's own goroutine at the k-th instruction boundary (after the loop looked at the abort flag, before the
	// instruction - possibly the call of time.Sleep - executes) instead of at an instant of simulated time
	decoded := tape.Bool(1, 3)
	atInstruction := tape.Bool(1, 3)
	k := 1 + tape.Draw(24)
	res = result{Index: index, Shape: sh.name, AbortAtMs: float64(at) / 1e6, Decoded: decoded && !sh.eval}
	if atInstruction && !sh.eval {
		res.AtInstruction = k
	}
	defer func() {
		if r := recover(); r != nil {
			res.Violation = fmt.Sprintf("bubble ended abnormally (deadlock or panic): %v", r)
		}
	}()
	synctest.Test(t, func(t *testing.T) {
		start := time.Now()
		ws := &sim.WorldSpec{Name: "w"}
		for i := 0; i < 8; i++ {
			ws.Pooled = append(ws.Pooled, pooled)
			ws.Repeat = append(ws.Repeat, 0)
		}
		w := sim.NewWorld(ws, nil)
		src := sim.Prelude + sh.src
		var err error
		var returned time.Duration
		if sh.eval {
			ctx, cancel := context.WithTimeout(context.Background(), at)
			defer cancel()
			ev := ugo.NewEval(ugo.CompilerOptions{ModuleMap: moduleMap()}, w.Globals)
			_, _, err = ev.Run(ctx, []byte(src))
			returned = time.Since(start)
			if err == nil {
				res.Violation = "Eval.Run returned a nil error after its context deadline"
			}
			r2, _, e2 := ev.Run(context.Background(), []byte("return 7"))
			if e2 != nil || sim.Canon(r2) != "i:7" {
				res.Violation = fmt.Sprintf("the session is unusable after the timed-out evaluation: %v %v", r2, e2)
			}
		} else {
			bc, cerr := ugo.Compile([]byte(src), ugo.CompilerOptions{ModuleMap: moduleMap()})
			if cerr != nil {
				t.Fatalf("compile: %v", cerr)
			}
			if decoded {
				var buf bytes.Buffer
				if eerr := encoder.EncodeBytecodeTo(bc, &buf); eerr != nil {
					t.Fatalf("encode: %v", eerr)
				}
				if bc, cerr = encoder.DecodeBytecodeFrom(&buf, moduleMap()); cerr != nil {
					t.Fatalf("decode: %v", cerr)
				}
			}
			vm := ugo.NewVM(bc)
			after := 0
			if atInstruction {
				cnt, fired := 0, false
				ugo.VerifHook = func(p int, _ unsafe.Pointer) {
					if p != ugo.VerifLoop {
						return
					}
					if fired {
						after++
					}
					if cnt++; cnt == k {
						fired = true
						at = time.Since(start)
						vm.Abort()
					}
				}
				_, err = vm.Run(w.Globals)
				ugo.VerifHook = nil
				returned = time.Since(start)
				res.AbortAtMs = float64(at) / 1e6
				if !fired {
					// the script has fewer instruction boundaries before it sleeps for good: nothing was aborted
					res.AtInstruction = -k
					res.ReturnMs = float64(returned) / 1e6
					return
				}
			} else {
				done := make(chan struct{})
				go func() {
					defer close(done)
					_, err = vm.Run(w.Globals)
					returned = time.Since(start)
				}()
				time.Sleep(at)
				vm.Abort()
				<-done
			}
			if !errors.Is(err, ugo.ErrVMAborted) && !(atInstruction && err == nil && after <= 256) {
				// (a script that had at most 256 instructions left when Abort was called may complete)
				res.Violation = fmt.Sprintf("Run returned %v instead of ErrVMAborted", err)
			}
			bc2, _ := ugo.Compile([]byte("return 7"), ugo.CompilerOptions{})
			vm.SetBytecode(bc2)
			r2, e2 := vm.Run(nil)
			if e2 != nil || sim.Canon(r2) != "i:7" {
				res.Violation = fmt.Sprintf("the VM is unusable after the aborted run: %v %v", r2, e2)
			}
		}
		res.ReturnMs = float64(returned) / 1e6
		if err != nil {
			res.Err = sim.CanonErr(err)
		}
		// prompt: within one poll period (10 ms) of simulated time after the abort / deadline
		if late := returned - at; late > 10*time.Millisecond+time.Microsecond || late < 0 {
			res.Violation = fmt.Sprintf("returned %.3f ms of simulated time after the abort/deadline (want 0..10 ms)", float64(late)/1e6)
		}
	})
	return res
}

func TestFakeClock(t *testing.T) {
	seed := int64(1)
	if v := os.Getenv("VERIF_SEED"); v != "" {
		seed, _ = strconv.ParseInt(v, 10, 64)
	}
	n := 2000
	if v := os.Getenv("VERIF_FAKECLOCK_RUNS"); v != "" {
		n, _ = strconv.Atoi(v)
	}
	first, last := 0, n
	if v := os.Getenv("VERIF_FAKECLOCK_INDEX"); v != "" {
		first, _ = strconv.Atoi(v)
		last = first + 1
	}
	outDir := os.Getenv("VERIF_DIR")
	if outDir == "" {
		outDir = ".."
	}
	var simTime float64
	var samples []result
	perShape := map[string]int{}
	modes := map[string]int{}
	violations := 0
	wall := time.Now()
	for i := first; i < last; i++ {
		r := runOne(t, seed, i)
		simTime += r.ReturnMs
		perShape[r.Shape]++
		if r.Decoded {
			modes["bytecode-decoded"]++
		}
		if r.AtInstruction > 0 {
			modes["abort-at-instruction-boundary"]++
		} else if r.AtInstruction < 0 {
			modes["instruction-boundary-not-reached(no abort)"]++
		} else {
			modes["abort-or-deadline-at-simulated-instant"]++
		}
		if len(samples) < 3 {
			samples = append(samples, r)
		}
		if r.Violation != "" {
			violations++
			path := filepath.Join(outDir, "replays", fmt.Sprintf("C09-fakeclock-%d-%d.json", seed, i))
			b, _ := json.MarshalIndent(map[string]any{"property": "C09", "arm": "fakeclock", "seed": seed, "index": i, "violation": map[string]string{"class": "fake-clock", "key": "fakeclock:" + r.Shape, "detail": r.Violation}, "decoded": r}, "", " ")
			os.MkdirAll(filepath.Dir(path), 0o755)
			os.WriteFile(path, b, 0o644)
			fmt.Printf("VIOLATION property=C09 replay=%s\n  fake-clock arm, shape %s, abort/deadline at %.3f ms, returned at %.3f ms: %s\n", path, r.Shape, r.AbortAtMs, r.ReturnMs, r.Violation)
			if violations >= 5 {
				break
			}
		}
	}
	sum := map[string]any{"bubbles": last - first, "violations": violations, "sim_time_ms": simTime, "per_shape": perShape, "modes": modes, "samples": samples, "wall_s": time.Since(wall).Seconds(), "seed": seed}
	b, _ := json.MarshalIndent(sum, "", " ")
	os.WriteFile(filepath.Join(outDir, "evidence", "C09-fakeclock.partial.json"), b, 0o644)
	fmt.Printf("fakeclock arm: %d bubbles, %.1f s of simulated time, %d violations\n", last-first, simTime/1000, violations)
	if violations > 0 {
		t.Fail()
	}
}
